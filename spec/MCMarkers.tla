------------------------------ MODULE MCMarkers ------------------------------
(***************************************************************************)
(* C07: Redact / StripMarkers / EscapeMarkers on ALL strings that are      *)
(* concatenations of at most MaxTok tokens.  A token is a whole marker,    *)
(* the cross of the redacted marker, a line feed, an ordinary byte or one  *)
(* of the individual bytes of the markers -- so truncated, re-assembled    *)
(* and interleaved markers are all explored.                               *)
(***************************************************************************)
EXTENDS Markers, TLC, Json

CONSTANTS MaxTok, Tokens, EmitOn
VARIABLES s, n
vars == <<s, n>>

\* (184, 187: with 226 128 before them the code points next to the markers, U+2038 and U+203B)
T9 == {StartM, EndM, Cross, <<NL>>, <<97>>, <<226>>, <<128>>, <<185>>, <<186>>, <<194, 186>>, <<184>>, <<187>>}
T6 == {StartM, EndM, Cross, <<NL>>, <<97>>, <<128>>}

Init == s = <<>> /\ n = 0
Next == n < MaxTok /\ \E t \in Tokens : s' = s \o t /\ n' = n + 1
Spec == Init /\ [][Next]_vars

\* replace the text of every envelope by the cross
RECURSIVE CrossOut(_)
CrossOut(chunks) ==
  IF chunks = <<>> THEN <<>>
  ELSE <<(IF Head(chunks).cls = "U" THEN Chunk("U", Cross) ELSE Head(chunks))>> \o CrossOut(Tail(chunks))

\* ---- on arbitrary strings
\* StripMarkers is ONE pass of a regexp: on invalid UTF-8 the removal of a marker can
\* re-assemble another one from the bytes around it (finding F6); on valid UTF-8 it cannot.
InvStripClean   == ValidUTF8(s) => ~HasMarker(Strip(s))
InvRedactIdem   == Redact(Redact(s)) = Redact(s)
InvEscapeClean  == ~HasMarker(EscapeMarkers(s)) /\ EscapeMarkers(EscapeMarkers(s)) = EscapeMarkers(s)
InvEscapeLen    == Len(Strip(s)) + (Len(s) - Len(Strip(s))) \div 3 = Len(EscapeMarkers(s))
\* ---- on well-formed strings
InvRedactExact  == LET p == Parse(s) IN p.ok =>
                     /\ Redact(s) = Render(CrossOut(p.chunks))
                     /\ WellFormed(Redact(s))
                     /\ NumEnvelopes(Redact(s)) = NumEnvelopes(s)
                     /\ DeleteEnvelopes(Redact(s)) = DeleteEnvelopes(s)
InvStripExact   == LET p == Parse(s) IN p.ok => Strip(s) = AllText(p.chunks)
InvRenderParse  == LET p == Parse(s) IN p.ok => Render(p.chunks) = s
\* homomorphism over concatenation of well-formed strings (every split point)
InvHomomorphic  == \A k \in 0..Len(s) :
                     LET l == Sub(s, 0, k)  r == From(s, k) IN
                     (WellFormed(l) /\ WellFormed(r)) =>
                        /\ Redact(s) = Redact(l) \o Redact(r)
                        /\ ((ValidUTF8(l) /\ ValidUTF8(r)) => Strip(s) = Strip(l) \o Strip(r))

Emit == EmitOn => PrintT(ToJson([s |-> s', strip |-> Strip(s'), redact |-> Redact(s'),
                                 esc |-> EscapeMarkers(s'), wf |-> WellFormed(s'), ls |-> LineSafe(s')]))
=============================================================================
