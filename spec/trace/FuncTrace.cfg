SPECIFICATION Spec
CONSTANTS
  TraceFile = "trace.ndjson"
  NChunks = 8
INVARIANT Done
CHECK_DEADLOCK FALSE
