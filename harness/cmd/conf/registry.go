package main

import (
	"bytes"
	"encoding/json"
	"flag"
	"fmt"
	"os"
	"os/exec"
	"reflect"
	"strings"

	"github.com/cockroachdb/redact"
	"github.com/cockroachdb/redact/verifharness/lib"
)

// registry-replay: the behaviours of MCRegistry (every order of registering every subset of four types of four
// different kinds).  Registrations cannot be undone, so each maximal behaviour runs in a process of its own
// (registry-child), which probes a value of every type in several positions after every registration; the parent
// compares with the specification: a probe is in the clear exactly if its type has been registered by then.

type regI int
type regS string
type regT struct {
	A int
	b string
}
type regF float64

// a second family: built-in types and byte containers (their values take fmt's byte-string paths under %s %q %x %X)
type regB []byte
type regA [2]byte
type regP uint8 // a byte-kinded element type: slices and arrays of it are "byte strings" to fmt's fast paths

// regU: an unsafe string of a type that is never registered -- the sentinel printed AFTER a value of a registered type
type regU string

// regN: an integer type that is never registered
type regN int

const regSentinel = regU("zq9")

var regTypes = map[string]reflect.Type{
	"int": reflect.TypeOf(regI(0)), "string": reflect.TypeOf(regS("")), "struct": reflect.TypeOf(regT{}), "float": reflect.TypeOf(regF(0)),
	"ptrstruct": reflect.TypeOf(&regT{}),
	"bstring":   reflect.TypeOf(""), "bint": reflect.TypeOf(0), "bytes": reflect.TypeOf(regB{}), "barray": reflect.TypeOf(regA{}),
	"u8elem": reflect.TypeOf(regP(0)),
	// the redactable types themselves: registered or not, what a redactable holds inside its envelopes stays there
	"rstr": reflect.TypeOf(redact.RedactableString("")), "rbytes": reflect.TypeOf(redact.RedactableBytes(nil)),
}

// regNamesake: a value of ANOTHER type that has the qualified name of the type the model registers under t (a type
// declared inside a function: reflect.Type.String(), Name() and PkgPath() are those of the package-level one). It is
// never registered: whatever the registry holds, its content stays enveloped.
func regNamesake(t string) interface{} {
	switch t {
	case "int":
		type regI int
		return regI(0x7a7139)
	case "string":
		type regS string
		return regS("zq9")
	case "struct":
		// (fields of types that are never registered: registering the built-in int or string must not show them)
		type regT struct {
			A regN
			b regU
		}
		return regT{0x7a7139, "zq9"}
	case "float":
		type regF float64
		return regF(8024377.25)
	}
	return nil
}

func regValue(t string) interface{} {
	switch t {
	case "int":
		return regI(4711)
	case "string":
		return regS("txt")
	case "struct":
		return regT{7, "f"}
	case "ptrstruct":
		return &regT{7, "f"}
	case "bstring":
		return "txt2"
	case "bint":
		return 4712
	case "bytes":
		return regB("by")
	case "barray":
		return regA{7, 9}
	case "u8elem":
		return regP(201)
	case "rstr":
		return redact.RedactableString("pre ‹zq8› post")
	case "rbytes":
		return redact.RedactableBytes("pre ‹zq8› post")
	}
	return regF(2.5)
}

// regProbes prints a value of type t at top level, in a slice, as a map value, as a reflect.Value and in struct fields
func regProbes(t string) []string {
	v := regValue(t)
	if t == "ptrstruct" {
		// below the top level a pointer prints as an address: only the positions that show the pointee
		return []string{string(redact.Sprintf("%v", v)), string(redact.Sprint(reflect.ValueOf(v))), string(redact.Sprintf("%+v|%d", v, 3))}
	}
	// ... and as the element of a statically typed slice and array (for byte-kinded element types fmt has fast paths)
	rv := reflect.ValueOf(v)
	tsl := reflect.Append(reflect.MakeSlice(reflect.SliceOf(rv.Type()), 0, 1), rv)
	tar := reflect.New(reflect.ArrayOf(1, rv.Type())).Elem()
	tar.Index(0).Set(rv)
	return []string{
		string(redact.Sprintf("%v", v)), string(redact.Sprint([]interface{}{v, "u"})), string(redact.Sprintf("%+v", map[string]interface{}{"k": v})),
		string(redact.Sprint(reflect.ValueOf(v))), string(redact.Sprintf("%v", struct{ X, y interface{} }{v, v})),
		string(redact.Sprintf("%v", tsl.Interface())), string(redact.Sprintf("%d", tar.Interface())), string(redact.Sprint(struct{ S interface{} }{tsl.Interface()})),
	}
}

// regLeakProbes: a value of type t in a statically typed field / element, FOLLOWED by the unsafe sentinel, under the verbs
// that take different paths through the printer for different kinds; then the sentinel alone in a call of its own
// (a printer that kept a safe override from the call before would show it)
func regLeakProbes(t string) []string {
	v := reflect.ValueOf(regValue(t))
	st := reflect.StructOf([]reflect.StructField{{Name: "X", Type: v.Type()}, {Name: "S", Type: reflect.TypeOf(regSentinel)}})
	sv := reflect.New(st).Elem()
	sv.Field(0).Set(v)
	sv.Field(1).Set(reflect.ValueOf(regSentinel))
	sl := reflect.MakeSlice(reflect.SliceOf(v.Type()), 0, 1)
	sl = reflect.Append(sl, v)
	mp := reflect.MakeMap(reflect.MapOf(reflect.TypeOf(0), v.Type()))
	mp.SetMapIndex(reflect.ValueOf(1), v)
	var out []string
	for _, verb := range []string{"%v", "%+v", "%#v", "%s", "%q", "%x", "%X", "%d"} {
		out = append(out,
			string(redact.Sprintf(verb+"|%v", sv.Interface(), regSentinel)),
			string(redact.Sprintf(verb+"|%v", sl.Interface(), regSentinel)),
			string(redact.Sprintf(verb+"|%v", mp.Interface(), regSentinel)),
			string(redact.Sprintf(verb+"|%v", v.Interface(), regSentinel)),
			string(redact.Sprintf(verb+"|%v", &struct {
				P interface{}
				S regU
			}{v.Interface(), regSentinel}, regSentinel)),
			string(redact.Sprint(regSentinel)))
		// behind unexported fields (reflection cannot turn these back into interface values), typed and untyped
		out = append(out, string(redact.Sprintf(verb+"|%v", struct{ x, y interface{} }{v.Interface(), regSentinel}, regSentinel)))
		if ns := regNamesake(t); ns != nil {
			// a different type of the same qualified name, at top level, in an interface slice and in a typed field
			out = append(out, string(redact.Sprintf(verb+"|%v", ns, []interface{}{ns})),
				string(redact.Sprintf(verb, struct{ X, y interface{} }{ns, ns})))
		}
		switch x := v.Interface().(type) {
		case redact.RedactableString:
			out = append(out, string(redact.Sprintf(verb+"|%v", struct {
				a redact.RedactableString
				l []redact.RedactableString
				s regU
			}{x, []redact.RedactableString{x}, regSentinel}, regSentinel)))
		case redact.RedactableBytes:
			out = append(out, string(redact.Sprintf(verb+"|%v", struct {
				a redact.RedactableBytes
				m map[int]redact.RedactableBytes
				s regU
			}{x, map[int]redact.RedactableBytes{1: x}, regSentinel}, regSentinel)))
		}
	}
	return out
}

// registry-child -order a,b,c : probes before any registration and after each one
func registryChild(args []string) {
	fs := flag.NewFlagSet("registry-child", flag.ExitOnError)
	order := fs.String("order", "", "")
	fs.Parse(args)
	var steps []map[string][]string
	probeAll := func() {
		m := map[string][]string{}
		for t := range regTypes {
			m[t] = regProbes(t)
			m[t+"#leak"] = regLeakProbes(t)
		}
		steps = append(steps, m)
	}
	probeAll()
	for _, t := range strings.Split(*order, ",") {
		if t == "" {
			continue
		}
		redact.RegisterSafeType(regTypes[t])
		probeAll()
	}
	out, _ := json.Marshal(steps)
	fmt.Println(string(out))
}

type regLine struct {
	Order []string        `json:"order"`
	Safe  map[string]bool `json:"safe"`
}

func registryReplay(args []string) {
	fs := flag.NewFlagSet("registry-replay", flag.ExitOnError)
	prop := fs.String("prop", "C05", "")
	fs.Parse(args)
	rep := lib.NewReport(*prop, "registry-replay")
	var lines []regLine
	_ = lib.TLCLines(os.Stdin, func(raw []byte) {
		var ln regLine
		if err := json.Unmarshal(raw, &ln); err == nil && ln.Safe != nil {
			lines = append(lines, ln)
			rep.AddReplayed(1)
		}
	})
	// maximal behaviours = the lines that are not a proper prefix of another line
	key := func(o []string) string { return strings.Join(o, ",") }
	isPrefix := map[string]bool{}
	for _, ln := range lines {
		for i := 0; i < len(ln.Order); i++ {
			isPrefix[key(ln.Order[:i])] = true
		}
	}
	expect := map[string]map[string]bool{}
	for _, ln := range lines {
		expect[key(ln.Order)] = ln.Safe
	}
	for _, ln := range lines {
		if isPrefix[key(ln.Order)] {
			continue
		}
		out, err := exec.Command(os.Args[0], "registry-child", "-order", key(ln.Order)).Output()
		if err != nil {
			rep.Violate("registry:child-died", fmt.Sprintf("registering %v then probing: the process died: %v", ln.Order, err), ln)
			continue
		}
		var steps []map[string][]string
		if err := json.Unmarshal(bytes.TrimSpace(out), &steps); err != nil || len(steps) != len(ln.Order)+1 {
			rep.DriftAt("registry-child printed something unexpected for " + key(ln.Order))
			continue
		}
		for i, step := range steps {
			safe := map[string]bool{}
			for _, t := range ln.Order[:i] {
				safe[t] = true
				if t == "struct" {
					safe["ptrstruct"] = true // a pointer shows its pointee, whose type is registered
				}
			}
			if i > 0 {
				if m, ok := expect[key(ln.Order[:i])]; ok {
					for t, s := range m {
						if s != safe[t] {
							rep.DriftAt(fmt.Sprintf("the specification's registry after %v disagrees with the replayer's", ln.Order[:i]))
						}
					}
				}
			}
			for t, probes := range step {
				rep.AddEval(int64(len(probes)))
				if strings.HasSuffix(t, "#leak") {
					// whatever is registered: the unsafe sentinel after the value (same container, next operand, next call)
					// stays enveloped, in every spelling the verbs give it
					for j, p := range probes {
						vis := string(lib.DeleteEnvelopes([]byte(p)))
						for _, sp := range []string{"zq9", "7a7139", "7A7139", "zq8", "8024377"} {
							if strings.Contains(vis, sp) {
								rep.Violate("registry:unsafe-after-registered-visible", fmt.Sprintf("after registering %v: the unsafe value printed after a %s value is in the clear: %q (probe %d)", ln.Order[:i], strings.TrimSuffix(t, "#leak"), p, j), ln)
							}
						}
					}
					continue
				}
				if t == "rstr" || t == "rbytes" {
					continue // (judged by the leak probes: a redactable is neither wholly in the clear nor wholly enveloped)
				}
				if _, inSet := ln.Safe[t]; !inSet {
					// a type of the other family: never registered in this behaviour, but registering a built-in type of this
					// family (int, string) legitimately shows the fields of that kind it holds
					continue
				}
				for j, p := range probes {
					// the last probe holds the value twice: exported field (registry applies) and unexported field (it applies too: by type)
					enveloped := strings.Contains(p, "‹")
					val := fmt.Sprint(regValue(t))
					if t == "struct" || t == "ptrstruct" {
						val = "7"
					}
					inClear := strings.Contains(string(lib.DeleteEnvelopes([]byte(p))), strings.Trim(val, "{}"))
					if safe[t] && !inClear {
						rep.Violate("registry:registered-type-enveloped", fmt.Sprintf("after registering %v a value of the registered %s type is printed as %q (probe %d)", ln.Order[:i], t, p, j), ln)
					}
					if !safe[t] && inClear {
						rep.Violate("registry:unregistered-type-visible", fmt.Sprintf("after registering %v a value of the %s type, which is not registered, is printed as %q (probe %d)", ln.Order[:i], t, p, j), ln)
					}
					_ = enveloped
				}
			}
		}
		rep.Nontrivial(key(ln.Order))
		rep.SampleIfFew(map[string]interface{}{"registration_order": ln.Order, "probes_per_step": 20})
	}
	rep.Finish()
}

func init() {
	register("registry-child", "C05: register types in the given order, probing after each step (run by registry-replay)", registryChild)
	register("registry-replay", "C05: replay MCRegistry behaviours, each in a process of its own", registryReplay)
}
