package main

import (
	"encoding/json"
	"flag"
	"fmt"
	"io"
	"math/rand"
	"runtime"
	"strings"
	"unicode/utf8"

	"github.com/cockroachdb/redact"
	"github.com/cockroachdb/redact/internal/rfmt"
	"github.com/cockroachdb/redact/verifharness/lib"
)

// secrets-drive (C02 on the fmt-compatible universe of C04): every member of the universe -- Go values of every
// kind, far beyond the term language of the printer model (channels, funcs, arrays, embedded and named struct
// fields, nested pointers, reflect.Values, typed maps, values whose methods panic ...) -- is built twice from
// two different secrets (a string and an int of the same shape) with the declared-safe members shared; for
// every verb x flag/width/precision grid point the two results must be identical after Redact().

type secretsCase struct {
	Kind   string `json:"kind"`
	Format string `json:"format"`
	Idx    []int  `json:"idx"`
	Route  int    `json:"route"`
}

// values with redact-specific behaviour (not fmt-compatible, so not part of C04's universe)
type secSM struct{ secret string }

func (secSM) SafeMessage() string { return "msg" }

type secSF struct {
	secret string
	n      int
}

func (x secSF) SafeFormat(p redact.SafePrinter, verb rune) {
	p.SafeString("sf:")
	p.Print(x.secret, redact.Safe("lit"))
	p.Printf("|%d|%v", x.n, redact.Safe(5))
	p.UnsafeString(x.secret)
}

type secSV struct{ pub string }

func (secSV) SafeValue() {}

type secFM struct{ secret string }

func (x secFM) Format(st fmt.State, verb rune) {
	if p, ok := st.(redact.SafePrinter); ok {
		p.SafeString("fm:")
		p.Print(x.secret, 7, nil, []interface{}{x.secret, 1.5})
		p.Printf("|%v|%d|%s", x.secret, 3, redact.Safe("lit"))
		return
	}
	fmt.Fprint(st, "fm:", x.secret, 7, nil, []interface{}{x.secret, 1.5})
	fmt.Fprintf(st, "|%v|%d|%s", x.secret, 3, "lit")
}

// a Formatter that writes through io.WriteString (pp.WriteString, not pp.Write)
type secWS struct{ secret string }

func (x secWS) Format(st fmt.State, verb rune) { io.WriteString(st, "ws:"+x.secret) }

// a Stringer whose method dies with a runtime error that spells out a value-dependent number
type secIdx struct{ n int }

func (x secIdx) String() string {
	arr := []int{1, 2, 3}
	return fmt.Sprint(arr[x.n%100000+3])
}

type secErr struct{ secret string }

func (e secErr) Error() string { return "err " + e.secret }

func secretsExtra(s string, n int, ps string, pn int) []interface{} {
	// an unsafe string that happens to render as the redaction mark itself in one instantiation (and as another
	// two-byte character in the other): position 0 of this list, see the cases built in secretsDrive
	cross := "\u00f7"
	if s == secretPairs[0].s {
		cross = "\u00d7"
	}
	return []interface{}{
		cross,
		secSM{s}, &secSM{s}, []secSM{{s}}, map[string]secSM{"k": {s}}, secSF{s, n}, []interface{}{secSF{s, n}, secSM{s}},
		secSV{ps}, []interface{}{secSV{ps}, s}, struct {
			A secSV
			b secSM
		}{secSV{ps}, secSM{s}}, secFM{s}, redact.Unsafe(secFM{s}),
		redact.Safe(ps), redact.Unsafe(s), redact.Unsafe(redact.Safe(s)), redact.Safe(redact.Unsafe(ps)), []interface{}{redact.Unsafe(n), redact.Safe(pn)},
		redact.Sprintf("%s %d", s, n), []redact.RedactableString{redact.Sprint(s)}, redact.Unsafe(redact.Sprintf("x %v", s)),
		secErr{s}, []error{secErr{s}}, secWS{s}, redact.Safe(secWS{ps}), []interface{}{redact.Safe(secWS{ps}), secWS{s}}, redact.Unsafe(secWS{s}),
		secIdx{n}, []interface{}{secIdx{n}, ps}, redact.Safe(secIdx{pn}), redact.Unsafe(secSM{s}), redact.Unsafe(secSF{s, n}), struct{ sm secSM }{secSM{s}},
	}
}

var secretPairs = [2]struct {
	s string
	n int
}{{"SECaXX", 7771}, {"SEKRbY", 7772}}

func runSecrets(k secretsCase, inst int) (out string, panicked bool) {
	u := universeOf(secretPairs[inst].s, secretPairs[inst].n, "pub", 42)
	u = append(u, secretsExtra(secretPairs[inst].s, secretPairs[inst].n, "pub", 42)...)
	var args []interface{}
	for _, i := range k.Idx {
		args = append(args, u[i%len(u)])
	}
	defer func() {
		if r := recover(); r != nil {
			out, panicked = fmt.Sprint(r), true
		}
	}()
	switch k.Route {
	case 0:
		return string(redact.Sprintf(k.Format, args...).Redact()), false
	case 1:
		return string(redact.Sprint(args...).Redact()), false
	default:
		return string(rfmt.Sprintln(args...).Redact()), false
	}
}

func judgeSecrets(rep *lib.Report, k secretsCase) {
	a, pa := runSecrets(k, 0)
	b, pb := runSecrets(k, 1)
	rep.AddEval(2)
	if pa || pb {
		return // a panic that reaches the caller is C11's subject (fmtdiff stage)
	}
	if a != b {
		rep.Violate("secrets:interference", fmt.Sprintf("route %d format %q operands %v: redacted results differ with the secrets: %q vs %q", k.Route, k.Format, k.Idx, a, b), k)
		return
	}
	for _, s := range []string{"SECa", "SEKRb", "7771", "7772"} {
		if strings.Contains(a, s) {
			rep.Violate("secrets:leak", fmt.Sprintf("route %d format %q operands %v: %q survives redaction in %q", k.Route, k.Format, k.Idx, s, a), k)
		}
	}
	rep.Nontrivial(a)
}

func secretsDrive(args []string) {
	fs := flag.NewFlagSet("secrets-drive", flag.ExitOnError)
	prop := fs.String("prop", "C02", "")
	pairs := fs.Int("pairs", 4000, "random two- and three-operand cases on top of the systematic single-operand grid")
	fs.Parse(args)
	rep := lib.NewReport(*prop, "secrets-drive")
	defer installPoolMonitor(rep)()
	usize := len(universeOf("s", 1, "p", 2)) + len(secretsExtra("s", 1, "p", 2))
	rep.Extra["universe_size"] = usize
	var cases []secretsCase
	for i := 0; i < usize; i++ {
		for _, v := range []string{"v", "+v", "#v", "s", "d", "q", "x", "X", "t", "c", "U", "e", "g", "p", "T", "o", "b", "Z"} {
			cases = append(cases, secretsCase{"secrets", "%" + v, []int{i}, 0})
			for _, fl := range []string{"8", "-8", ".2", "08.3", "+", "# ", " "} {
				cases = append(cases, secretsCase{"secrets", "a %" + fl + strings.TrimLeft(v, "+#") + " b", []int{i}, 0})
			}
			// literals ending in a rune that shares its last byte with a marker, right before the operand
			cases = append(cases, secretsCase{"secrets", "n.\u00ba%" + v + "\u20ba", []int{i}, 0}, secretsCase{"secrets", "\u00b9%" + v + "\u203b", []int{i}, 0})
		}
		cases = append(cases, secretsCase{"secrets", "", []int{i}, 1}, secretsCase{"secrets", "", []int{i, i}, 2})
	}
	// the unsafe operand that looks like the redaction mark, first, followed by every other value
	crossIdx := len(universeOf("s", 1, "p", 2))
	for i := 0; i < usize; i++ {
		cases = append(cases, secretsCase{"secrets", "op=%v user=%v", []int{crossIdx, i}, 0}, secretsCase{"secrets", "", []int{crossIdx, i, crossIdx}, 1})
	}
	r := rand.New(rand.NewSource(lib.Seed()))
	for i := 0; i < *pairs; i++ {
		k := secretsCase{"secrets", randFormat(r), []int{r.Intn(usize), r.Intn(usize), r.Intn(usize)}[:2+r.Intn(2)], r.Intn(3)}
		if strings.Contains(k.Format, "*") || !utf8.ValidString(k.Format) {
			continue // star operands are public by the statement: kept out (the printer slices cover them)
		}
		cases = append(cases, k)
	}
	lib.Parallel(runtime.NumCPU(), func(emit func(secretsCase)) {
		for _, k := range cases {
			emit(k)
		}
	}, func(k secretsCase) {
		rep.Guard("secrets:panic", k, func() { judgeSecrets(rep, k) })
	})
	rep.SampleIfFew(map[string]string{"format": "%+v", "redacted": func() string { s, _ := runSecrets(secretsCase{"secrets", "%+v", []int{40}, 0}, 0); return s }()})
	rep.Finish()
}

func init() {
	register("secrets-drive", "C02: the fmt-compatible universe built from two secrets, redacted results compared", secretsDrive)
	extraReplayers["secrets"] = func(rep *lib.Report, prop string, raw json.RawMessage) {
		var k secretsCase
		_ = json.Unmarshal(raw, &k)
		judgeSecrets(rep, k)
	}
}
