------------------------------ MODULE FuncTrace ------------------------------
(***************************************************************************)
(* Trace specification for the sequential parts of the library (code ->    *)
(* model direction).  Every recorded event is self-contained: it carries   *)
(* the arguments, the full pre-state where there is one, and what the      *)
(* real code returned / the real post-state.  An event is ACCEPTED iff the *)
(* specification's operator, applied to the recorded inputs, yields        *)
(* exactly the recorded result.  A mismatch does not stop validation: the  *)
(* index is added to `bad` and the remaining events are still checked      *)
(* (each is self-contained), so one rejection never hides the rest.        *)
(*                                                                         *)
(* The trace is cut into NChunks contiguous chunks that are validated as   *)
(* independent behaviours (one initial state each), so TLC's workers       *)
(* validate them in parallel; each behaviour is linear.                    *)
(***************************************************************************)
EXTENDS Buffer, TLC, Json, FiniteSets

CONSTANTS TraceFile, NChunks

Trace == ndJsonDeserialize(TraceFile)
N     == Len(Trace)
ChunkLen == (N + NChunks - 1) \div NChunks

VARIABLES c, l, bad
vars == <<c, l, bad>>

Lo(ch) == (ch - 1) * ChunkLen + 1
Hi(ch) == IF ch * ChunkLen > N THEN N ELSE ch * ChunkLen

Init == c \in 1..NChunks /\ l = Lo(c) /\ bad = {}

ToState(r) == [buf |-> r.buf, valid |-> r.valid, mode |-> r.mode, open |-> r.open]

Consistent(e) ==
  CASE e.k = "markers"  -> /\ Strip(e.s) = e.strip
                           /\ Redact(e.s) = e.redact
                           /\ EscapeMarkers(e.s) = e.esc
                           /\ WellFormed(e.s) = e.wf
    [] e.k = "escape"   -> InternalEscape(e.b, e.at, e.brk, e.strip) = e.res
    [] e.k = "escbytes" -> EscapeBytes(e.b) = e.res
    [] e.k = "buf"      -> /\ BStep(ToState(e.pre), e.op) = ToState(e.post)
                           /\ BTypeOK(ToState(e.post))
                           /\ e.inv => /\ WellFormed(BOut(ToState(e.post)))
                                       /\ LineSafe(BOut(ToState(e.post)))
    [] e.k = "bufout"   -> BOut(ToState(e.pre)) = e.out    \* value-receiver accessors
    [] OTHER            -> FALSE

Next == /\ l <= Hi(c)
        /\ l' = l + 1
        /\ c' = c
        /\ bad' = IF Consistent(Trace[l]) THEN bad ELSE bad \cup {l}

Spec == Init /\ [][Next]_vars

\* printed once per chunk when its last event has been consumed
Done == (l = Hi(c) + 1) => PrintT(ToJson([traceresult |-> TRUE, chunk |-> c, lo |-> Lo(c), hi |-> Hi(c),
                                          nbad |-> Cardinality(bad), bad |-> bad]))
=============================================================================
