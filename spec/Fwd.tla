--------------------------------- MODULE Fwd ---------------------------------
(***************************************************************************)
(* internal/fmtforward/make_format.go: MakeFormat(s fmt.State, verb) as a  *)
(* function of what a Format method can observe of the active directive   *)
(* (the five Flag() answers, Width(), Precision()) and the verb.           *)
(***************************************************************************)
EXTENDS Format

\* what a Formatter observes through fmt.State for an Arg item of the parser
ObsOf(it) == [plus  |-> it.fl.plus \/ it.fl.plusV,      \* pp.Flag('+') = plus || plusV
              minus |-> it.fl.minus,
              sharp |-> it.fl.sharp \/ it.fl.sharpV,    \* pp.Flag('#') = sharp || sharpV
              space |-> it.fl.space,
              zero  |-> it.fl.zero,
              wp    |-> it.fl.widPresent,  w |-> IF it.fl.widPresent THEN it.fl.wid ELSE 0,
              pp    |-> it.fl.precPresent, p |-> IF it.fl.precPresent THEN it.fl.prec ELSE 0]

RECURSIVE Itoa(_)       \* strconv.Itoa for n >= 0
Itoa(n) == IF n < 10 THEN <<48 + n>> ELSE Itoa(n \div 10) \o <<48 + (n % 10)>>

Opt(c, b) == IF c THEN b ELSE <<>>

\* <<justV, format>>
MakeFormat(o, verb) ==
  IF ~o.plus /\ ~o.minus /\ ~o.sharp /\ ~o.space /\ ~o.zero /\ ~o.wp /\ ~o.pp /\ verb \in {118, 115, 100}
  THEN <<verb = 118, <<Pct, verb>>>>
  ELSE <<FALSE, <<Pct>> \o Opt(o.plus, <<Plus>>) \o Opt(o.minus, <<Minus>>) \o Opt(o.sharp, <<Sharp>>)
                \o Opt(o.space, <<SP>>) \o Opt(o.zero, <<Zero>>)
                \o Opt(o.wp, Itoa(o.w)) \o Opt(o.pp, <<Dot>> \o Itoa(o.p)) \o EncodeRune(verb)>>
=============================================================================
