package main

import (
	"bytes"
	"encoding/json"
	"flag"
	"fmt"
	"math/rand"
	"strings"

	"github.com/cockroachdb/redact"
	"github.com/cockroachdb/redact/internal/markers"
	"github.com/cockroachdb/redact/verifharness/lib"
)

// long-drive: the specification is agnostic of lengths, the code is not (the 64-byte small buffer, growth by
// doubling, the 64 KiB limit of the printer pool, and whatever size-dependent fast path a change may add).
// Payloads whose lengths sit around such thresholds (63..66, 127..130, 255..257, 300, 1000, 5000, 65535..65537,
// 70000), made of the interesting tokens (line feeds, markers, partial markers) and filler, are written
//   (a) into ManualBuffer histories -- prefix of a given length, the long payload through Write / WriteString,
//       optional Reset / Take and a continuation -- judged by the buffer predicates (well-formed, line-safe,
//       per-line, denotation, Reset/Take give a pristine object), and
//   (b) through Sprintf / Sprint / StringBuilder as string, []byte and error operands after a prefix,
//       judged like C01/C03/C04 (well-formed, line-safe, characters = fmt's).

var longLens = []int{63, 64, 65, 66, 127, 128, 129, 130, 255, 256, 257, 300, 1000, 5000, 65535, 65536, 65537, 70000}

type longCase struct {
	Kind   string `json:"kind"`
	Len    int    `json:"len"`
	Prefix int    `json:"prefix"`
	Seed   int64  `json:"seed"`
	Shape  int    `json:"shape"`
}

func longPayload(r *rand.Rand, n int) []byte {
	toks := [][]byte{[]byte("z"), []byte("zz zz"), []byte("\n"), lib.StartM, lib.EndM, []byte("\n\n\n"), {0xE2, 0x80}, []byte("é"), {0xC2, 0xBA}}
	var b []byte
	for len(b) < n {
		if r.Intn(6) == 0 {
			b = append(b, toks[r.Intn(len(toks))]...)
		} else {
			b = append(b, bytes.Repeat([]byte("z"), 1+r.Intn(40))...)
		}
	}
	return b[:n]
}

func judgeLong(rep *lib.Report, prop string, k longCase) {
	r := rand.New(rand.NewSource(k.Seed))
	pay := longPayload(r, k.Len)
	prefix := bytes.Repeat([]byte("p"), k.Prefix)
	is := func(p string) bool { return prop == p || prop == "ALL" }
	// (a) buffer histories
	modes := []int{0, 1}
	for _, m := range modes {
		for _, cont := range []string{"", "RST", "TK"} {
			h := []BOp{{Op: "SM", N: 1}, {Op: "W", P: prefix}, {Op: "SM", N: m}, {Op: "W", P: pay}}
			if k.Shape%2 == 1 {
				h = append(h, BOp{Op: "ACC"})
			}
			if cont != "" {
				h = append(h, BOp{Op: cont}, BOp{Op: "SM", N: 0}, BOp{Op: "W", P: []byte("secret")}, BOp{Op: "SM", N: 1}, BOp{Op: "W", P: []byte(" safe")})
			}
			for v := 0; v < 2; v++ {
				st, out, acc, p, imp := runBufHistory(h, v)
				rep.AddEval(1)
				judgeBuffer(rep, prop, h, v, st, out, acc, p, imp)
			}
		}
	}
	// (b) printing calls
	type call struct {
		name string
		fn   func() (red string, std string)
	}
	s := string(pay)
	calls := []call{
		{"Sprintf(%s%s)", func() (string, string) {
			return string(redact.Sprintf("%s%s|", redact.Safe(string(prefix)), s)), fmt.Sprintf("%s%s|", string(prefix), s)
		}},
		{"Sprintf(%v bytes)", func() (string, string) {
			return string(redact.Sprintf(string(prefix)+"%s end", pay)), fmt.Sprintf(string(prefix)+"%s end", pay)
		}},
		{"Sprint(error)", func() (string, string) {
			e := fmt.Errorf("%s", s)
			return string(redact.Sprint(string(prefix), e, 7)), fmt.Sprint(string(prefix), e, 7)
		}},
		{"builder", func() (string, string) {
			var sb redact.StringBuilder
			sb.SafeString(redact.SafeString(prefix))
			sb.UnsafeString(s)
			sb.Printf("|%d", 5)
			return string(sb.RedactableString()), string(prefix) + s + "|5"
		}},
		{"builder.Write", func() (string, string) {
			var sb redact.StringBuilder
			sb.SafeString(redact.SafeString(prefix))
			sb.Write(pay)
			sb.SafeString("|")
			return string(sb.RedactableString()), string(prefix) + s + "|"
		}},
	}
	for _, c := range calls {
		var red, std string
		p := ""
		func() {
			defer func() {
				if e := recover(); e != nil {
					p = fmt.Sprint(e)
				}
			}()
			red, std = c.fn()
		}()
		rep.AddEval(1)
		desc := fmt.Sprintf("%s with a %d-byte payload after a %d-byte prefix (seed %d)", c.name, k.Len, k.Prefix, k.Seed)
		if p != "" {
			if is("C11") || is("C01") {
				rep.Violate("long:panic", desc+": panic "+p, k)
			}
			continue
		}
		out := []byte(red)
		if !lib.WellFormed(out) {
			if is("C01") || is("C03") || is("C11") {
				rep.Violate("long:illformed", desc+": output not well-formed: "+lib.Q(head(out)), k)
			}
			continue
		}
		if (is("C03") || is("C01")) && !lib.LineSafe(out) {
			rep.Violate("long:linespan", desc+": an envelope spans a line feed: "+lib.Q(head(out)), k)
		}
		if is("C03") {
			redf := func(b []byte) []byte { return []byte(markers.RedactableBytes(b).Redact()) }
			strf := func(b []byte) []byte { return markers.RedactableBytes(b).StripMarkers() }
			if !lib.PerLineOK(out, redf, strf) {
				rep.Violate("long:perline", desc+": line-wise redact/strip differs from whole", k)
			}
		}
		if got, want := string(lib.Strip(out)), string(lib.EscapeAll([]byte(std))); strings.TrimRight(got, "?") != strings.TrimRight(want, "?") && (is("C01") || is("C11") || is("C04")) {
			// (the '?' guard after a truncated sequence may differ in position by design: compared without trailing '?')
			if strings.ReplaceAll(got, "?", "") != strings.ReplaceAll(want, "?", "") {
				rep.Violate("long:lost-or-altered-text", fmt.Sprintf("%s: stripped output (%d bytes) differs from what fmt prints (%d bytes)", desc, len(got), len(want)), k)
			}
		}
	}
	rep.Nontrivial(fmt.Sprint(k.Len, k.Prefix, k.Shape))
}

func head(b []byte) []byte {
	if len(b) > 120 {
		return append(append([]byte{}, b[:60]...), append([]byte(" ... "), b[len(b)-50:]...)...)
	}
	return b
}

func longDrive(args []string) {
	fs := flag.NewFlagSet("long-drive", flag.ExitOnError)
	prop := fs.String("prop", "ALL", "")
	reps := fs.Int("reps", 2, "random payloads per (length, prefix)")
	fs.Parse(args)
	rep := lib.NewReport(*prop, "long-drive")
	defer installPoolMonitor(rep)()
	var cases []longCase
	r := rand.New(rand.NewSource(lib.Seed()))
	for _, n := range longLens {
		for _, pre := range []int{0, 1, 64, 100} {
			for i := 0; i < *reps; i++ {
				cases = append(cases, longCase{"long", n, pre, r.Int63(), i})
			}
		}
	}
	lib.Parallel(8, func(emit func(longCase)) {
		for _, k := range cases {
			emit(k)
		}
	}, func(k longCase) {
		rep.Guard("long:panic", k, func() { judgeLong(rep, *prop, k) })
	})
	rep.SampleIfFew(map[string]interface{}{"lengths": longLens, "prefixes": []int{0, 1, 64, 100}})
	rep.Finish()
}

func init() {
	register("long-drive", "payload lengths around the size thresholds of the implementation (buffer histories and printing calls)", longDrive)
	extraReplayers["long"] = func(rep *lib.Report, prop string, raw json.RawMessage) {
		var k longCase
		_ = json.Unmarshal(raw, &k)
		judgeLong(rep, prop, k)
	}
}
