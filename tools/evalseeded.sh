#!/bin/sh
# regression over all confirmed seeded changes: each against the quick check of its own property.
# VERIF_ROOT (default /verif) selects the copy of the machinery to run (a snapshot lets /verif be edited meanwhile);
# JOBS (default 1) runs that many evaluations side by side.
tier=${1:-quick}
R=${VERIF_ROOT:-/verif}
ls -d $R/seeded/*/ | xargs -P ${JOBS:-1} -I{} sh -c 'd={}; id=$(basename $d); p=$(echo $id | cut -c1-3); echo "$id: $(VERIF_ROOT='$R' '$R'/tools/evalmut.sh $d $p '$tier' 2>&1 | tr "\n" " " | cut -c1-160)"'
