-------------------------------- MODULE MCFwd --------------------------------
(***************************************************************************)
(* C14, complete enumeration: every flag subset x width option x precision *)
(* option x verb.  For each directive d the format string is parsed, the   *)
(* observation of the operand's Format method is taken, MakeFormat is      *)
(* applied, and the result is parsed again: the second observation must    *)
(* equal the first.                                                        *)
(***************************************************************************)
EXTENDS Fwd, TLC, Json

CONSTANTS Verbs, EmitOn
VARIABLES d
vars == <<d>>

WidOpts  == {"none", "0", "1", "7", "12", "1000", "*6", "*-4"}
PrecOpts == {"none", "0", "1", "5", "*3", "*-1", "dot"}
Letters  == (65..90) \cup (97..122)
AllVerbs == (Letters \ {84, 112, 119}) \cup {233, 19990, 128512}     \* not T p w; e-acute, CJK, emoji
FewVerbs == {118, 100, 115, 120, 88, 113, 102, 90, 233}     \* v d s x X q f Z e-acute

R    == [isInt |-> FALSE, num |-> 0]
I(k) == [isInt |-> TRUE, num |-> k]

Digits(s) == CASE s = "0" -> <<48>> [] s = "1" -> <<49>> [] s = "7" -> <<55>> [] s = "5" -> <<53>>
               [] s = "12" -> <<49, 50>> [] s = "1000" -> <<49, 48, 48, 48>>

WidBytes(w)  == CASE w = "none" -> <<>> [] w \in {"*6", "*-4"} -> <<Star>> [] OTHER -> Digits(w)
PrecBytes(p) == CASE p = "none" -> <<>> [] p = "dot" -> <<Dot>> [] p \in {"*3", "*-1"} -> <<Dot, Star>>
                  [] OTHER -> <<Dot>> \o Digits(p)
WidArgs(w)   == CASE w = "*6" -> <<I(6)>> [] w = "*-4" -> <<I(-4)>> [] OTHER -> <<>>
PrecArgs(p)  == CASE p = "*3" -> <<I(3)>> [] p = "*-1" -> <<I(-1)>> [] OTHER -> <<>>

FlagBytes(fs) == Opt(fs[1], <<Plus>>) \o Opt(fs[2], <<Minus>>) \o Opt(fs[3], <<Sharp>>)
                 \o Opt(fs[4], <<SP>>) \o Opt(fs[5], <<Zero>>)

Directives == [fs : [1..5 -> BOOLEAN], w : WidOpts, p : PrecOpts, v : Verbs]

FmtOf(x)  == <<Pct>> \o FlagBytes(x.fs) \o WidBytes(x.w) \o PrecBytes(x.p) \o EncodeRune(x.v)
ArgsOf(x) == WidArgs(x.w) \o PrecArgs(x.p) \o <<R>>

\* two levels so that TLC's workers share the enumeration: 32 roots (one per flag subset,
\* verb 0 = not yet chosen), each expanded into all width x precision x verb combinations
Init == d \in [fs : [1..5 -> BOOLEAN], w : {"none"}, p : {"none"}, v : {0}]
Next == d.v = 0 /\ \E w \in WidOpts, p \in PrecOpts, v \in Verbs : d' = [d EXCEPT !.w = w, !.p = p, !.v = v]
Chosen == d.v # 0
Spec == Init /\ [][Next]_vars

Items1 == ParseFormat(FmtOf(d), ArgsOf(d))
TheArg(items) == SelectSeq(items, LAMBDA it : it.t = "Arg")
Obs1   == ObsOf(TheArg(Items1)[1])
MF     == MakeFormat(Obs1, d.v)
Items2 == ParseFormat(MF[2], <<R>>)

\* the first parse consumes the operand with the verb of the directive
InvOneArg == Chosen => Len(TheArg(Items1)) = 1 /\ TheArg(Items1)[1].v = d.v /\ TheArg(Items1)[1].a = Len(ArgsOf(d)) - 1
\* round trip: MakeFormat's string re-creates flags, width, precision and verb
InvRoundTrip == Chosen =>
                /\ Len(Items2) = 1 /\ Items2[1].t = "Arg"
                /\ Items2[1].v = d.v
                /\ ObsOf(Items2[1]) = Obs1
\* justV exactly for the bare %v
InvJustV == Chosen => MF[1] <=> (d.v = 118 /\ Obs1 = ObsOf(ArgItem(0, 118, NoFlags)))
\* the string is canonical: applying MakeFormat to its own observation is a fixpoint
InvFixpoint == Chosen => MakeFormat(ObsOf(Items2[1]), d.v) = MF

EmitInv == (EmitOn /\ Chosen) => PrintT(ToJson([f |-> FmtOf(d), nargs |-> Len(ArgsOf(d)), w |-> d.w, p |-> d.p, v |-> d.v,
                                    justv |-> MF[1], mf |-> MF[2]]))
=============================================================================
