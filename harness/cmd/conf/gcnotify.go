//go:build verif

package main

import (
	"sync"

	"github.com/cockroachdb/redact/internal/rfmt"
)

// Printer objects about to be collected (rfmt.VerifGC): monitors that key what they know about a printer by the
// address of its buffer, or by its identity, subscribe here.  A printer abandoned by a propagating panic never sees
// put / drop; its finalizer runs before its memory can be handed to another object.

var (
	gcMu   sync.Mutex
	gcSubs = map[int]func(pid uint64){}
	gcNext int
)

func init() {
	rfmt.VerifGC.Store(func(pid uint64) {
		gcMu.Lock()
		subs := make([]func(uint64), 0, len(gcSubs))
		for _, f := range gcSubs {
			subs = append(subs, f)
		}
		gcMu.Unlock()
		for _, f := range subs {
			f(pid)
		}
	})
}

// onPrinterCollected registers f; the returned function removes it again.
func onPrinterCollected(f func(pid uint64)) (cancel func()) {
	gcMu.Lock()
	gcNext++
	id := gcNext
	gcSubs[id] = f
	gcMu.Unlock()
	return func() {
		gcMu.Lock()
		delete(gcSubs, id)
		gcMu.Unlock()
	}
}
