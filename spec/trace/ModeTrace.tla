------------------------------ MODULE ModeTrace ------------------------------
(***************************************************************************)
(* Trace specification for the printer's output mode and override (code -> *)
(* model).  Every change of pp.buf's mode and of pp.override goes through  *)
(* five functions of helpers.go (the four start* switches and              *)
(* restorer.restore), the entry of doPrint/doPrintf/doPrintln and the      *)
(* creation of a nested printer; each of these sites emits one event       *)
(* (hooks under the build tag verif), as do the entry and exit of printArg *)
(* and newPrinter.  The trace is validated against the SAME operators the  *)
(* printer specification is built from:                                    *)
(*   U R SO UO  the state after = Printer!Start*(state before), the state   *)
(*              before being what the printer's previous event left        *)
(*   X          restores exactly what the matching start saw (the starts   *)
(*              and restores of one printer nest like brackets)            *)
(*   D          the state after = Printer!EnterPrint(state before)         *)
(*   N          the nested printer's state = Printer!Nested(parent)        *)
(*   A+ / A-    printArg gives back mode and override as it found them     *)
(*              and has closed every switch it opened                      *)
(*   continuity the state before an event is the state after the previous  *)
(*              event of the same printer (no un-modelled change)          *)
(*   discipline override unsafe => mode unsafe; override safe => mode not  *)
(*              unsafe (what C05/C06 rest on), after every event           *)
(* on executions of arbitrary Go values (the repository's test suite, the  *)
(* fmt-compatible universe), not only the terms of the printer model.      *)
(* A mismatch adds the event index to `bad` and validation continues.      *)
(***************************************************************************)
EXTENDS Printer, TLC, Json, FiniteSets

CONSTANT TraceFile
Trace == ndJsonDeserialize(TraceFile)
Pids  == {Trace[i].pid : i \in 1..Len(Trace)} \cup {Trace[i].par : i \in 1..Len(Trace)}

VARIABLES l, stk, cur, bad
tvars == <<l, stk, cur, bad>>

OvName(o) == CASE o = 0 -> "none" [] o = 1 -> "safe" [] o = 2 -> "unsafe"
OvNum(n)  == CASE n = "none" -> 0 [] n = "safe" -> 1 [] n = "unsafe" -> 2
PS(s)     == [NewPS EXCEPT !.bs = [BInit EXCEPT !.mode = s[1]], !.ov = OvName(s[2])]
St(ps)    == <<ps.bs.mode, OvNum(ps.ov)>>
Unknown   == <<-1, -1>>

Switch(ev, s) == CASE ev = "U"  -> St(StartUnsafe(PS(s)))
                   [] ev = "R"  -> St(StartPreRedactable(PS(s)))
                   [] ev = "SO" -> St(StartSafeOverride(PS(s)))
                   [] ev = "UO" -> St(StartUnsafeOverride(PS(s)))
Discipline(s) == (s[2] = 2 => s[1] = MU) /\ (s[2] = 1 => s[1] # MU)
Continues(q, s) == cur[q] = Unknown \/ cur[q] = s

Init == l = 1 /\ stk = [q \in Pids |-> <<>>] /\ cur = [q \in Pids |-> Unknown] /\ bad = {}

Top(q) == stk[q][Len(stk[q])]
Pop(q) == SubSeq(stk[q], 1, Len(stk[q]) - 1)
\* drop the frames above the innermost printArg frame (resynchronisation after a mismatch)
RECURSIVE PopToArg(_)
PopToArg(s) == IF s = <<>> THEN <<>> ELSE IF s[Len(s)].k = "A" THEN SubSeq(s, 1, Len(s) - 1) ELSE PopToArg(SubSeq(s, 1, Len(s) - 1))

Next ==
  /\ l <= Len(Trace)
  /\ l' = l + 1
  /\ LET e == Trace[l]  q == e.pid  a == <<e.m1, e.o1>>
         b == cur[q]                         \* the state before: what the printer's previous event left (the hooks log
                                             \* the state AFTER each step only, reading nothing but the printer)
     IN
     CASE e.ev \in {"U", "R", "SO", "UO"} ->
            /\ bad' = IF (b # Unknown => a = Switch(e.ev, b)) /\ Discipline(a) THEN bad ELSE bad \cup {l}
            /\ stk' = [stk EXCEPT ![q] = Append(@, [k |-> "S", s |-> b])]
            /\ cur' = [cur EXCEPT ![q] = a]
       [] e.ev = "X" ->
            \* restores exactly what the matching start saw (starts and restores of one printer nest like brackets)
            /\ bad' = IF /\ stk[q] # <<>> /\ Top(q).k = "S"
                         /\ Top(q).s # Unknown => a = Top(q).s
                         /\ (b # Unknown /\ Top(q).s # Unknown) => a = St(Restore(PS(b), Top(q).s[1], OvName(Top(q).s[2])))
                         /\ Discipline(a)
                      THEN bad ELSE bad \cup {l}
            /\ stk' = [stk EXCEPT ![q] = IF @ # <<>> /\ Top(q).k = "S" THEN Pop(q) ELSE @]
            /\ cur' = [cur EXCEPT ![q] = a]
       [] e.ev = "A+" ->
            /\ bad' = IF Continues(q, a) /\ Discipline(a) THEN bad ELSE bad \cup {l}
            /\ stk' = [stk EXCEPT ![q] = Append(@, [k |-> "A", s |-> a])]
            /\ cur' = [cur EXCEPT ![q] = a]
       [] e.ev = "A-" ->
            /\ bad' = IF stk[q] # <<>> /\ Top(q).k = "A" /\ Top(q).s = a /\ Continues(q, a) THEN bad ELSE bad \cup {l}
            /\ stk' = [stk EXCEPT ![q] = PopToArg(@)]
            /\ cur' = [cur EXCEPT ![q] = a]
       [] e.ev = "D" ->
            /\ bad' = IF /\ stk[q] = <<>>
                         /\ b # Unknown => a = St(EnterPrint(PS(b)))
                         /\ Discipline(a)
                      THEN bad ELSE bad \cup {l}
            /\ stk' = stk
            /\ cur' = [cur EXCEPT ![q] = a]
       [] e.ev = "N" ->
            \* e.par: the parent, whose state is <<e.m0, e.o0>>; the nested printer starts as Printer!Nested says
            /\ bad' = IF Continues(e.par, <<e.m0, e.o0>>) /\ a = St(Nested(PS(<<e.m0, e.o0>>))) /\ stk[q] = <<>> THEN bad ELSE bad \cup {l}
            /\ stk' = stk
            /\ cur' = [cur EXCEPT ![q] = a]
       [] e.ev = "G" ->
            /\ bad' = IF a = <<MU, 0>> THEN bad ELSE bad \cup {l}
            /\ stk' = [stk EXCEPT ![q] = <<>>]        \* (a printer abandoned by a propagating panic is not pooled again)
            /\ cur' = [cur EXCEPT ![q] = a]
       [] OTHER -> bad' = bad \cup {l} /\ UNCHANGED <<stk, cur>>

Spec == Init /\ [][Next]_tvars

Done == (l = Len(Trace) + 1) =>
          PrintT(ToJson([traceresult |-> TRUE, chunk |-> 1, lo |-> 1, hi |-> Len(Trace), nbad |-> Cardinality(bad), bad |-> bad]))
=============================================================================
