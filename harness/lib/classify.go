package lib

// Statement-level classification of an operand term (port of MCPrinter!Ctxs):
// an inherited attribute walked down the term, independent of the printer's
// modes, overrides and restorers.

// CtxMap returns, per term id, the declaration its renderings stand under:
// "safe", "unsafe" or "none".
func CtxMap(ts []*Term) map[int]string {
	m := map[int]string{}
	for _, t := range ts {
		ctxWalk(t, "none", false, m)
	}
	return m
}

func ctxWalk(t *Term, inh string, ro bool, m map[int]string) {
	own := inh
	if inh == "none" {
		switch {
		case t.K == "unsafe":
			own = "unsafe"
		case t.K == "safe":
			own = "safe"
		case hasCap(t, "REG") && !hasCap(t, "NILP"): // a registered type, whatever its kind
			own = "safe"
		case t.K == "obj" && hasCap(t, "SV") && !ro:
			own = "safe"
		case t.K == "sstr" && !ro:
			own = "safe"
		}
	}
	m[t.ID] = own
	for i, x := range t.Xs {
		r := ro
		if (t.K == "struct" && t.Ro[i]) || t.K == "rvaluero" {
			r = true
		}
		ctxWalk(x, own, r, m)
	}
	// the payload of a panic raised by one of t's methods is printed in place, as an operand under t's declaration
	for _, x := range t.Pan {
		ctxWalk(x, own, false, m)
	}
}

// DeclClass is the declared class ('S' visible / 'U' enveloped) of a rendering
// with the given role of term t under context cx.
func DeclClass(t *Term, role, cx string) byte {
	switch cx {
	case "unsafe":
		return 'U'
	case "safe":
		return 'S'
	}
	if role == "typename" || role == "typefmt" || role == "ifacetype" || (t != nil && t.K == "nil") {
		return 'S'
	}
	if t != nil && (t.K == "rstring" || t.K == "rbytes") && role != "ptr" {
		return 'S' // what a redactable shows outside its own envelopes
	}
	if role == "ret" && t != nil && t.K == "obj" && hasCap(t, "SM") && !hasCap(t, "SF") {
		return 'S'
	}
	return 'U'
}

// AllTerms collects the operand terms (not script-internal ones) by id.
func AllTerms(ts []*Term, m map[int]*Term) map[int]*Term {
	if m == nil {
		m = map[int]*Term{}
	}
	for _, t := range ts {
		m[t.ID] = t
		AllTerms(t.Xs, m)
		AllTerms(t.Pan, m)
	}
	return m
}

// HasKind reports whether some operand subterm has one of the kinds.
func HasKind(ts []*Term, kinds ...string) bool {
	for _, t := range ts {
		if t == nil {
			continue
		}
		for _, k := range kinds {
			if t.K == k {
				return true
			}
		}
		if HasKind(t.Xs, kinds...) || HasKind(t.Pan, kinds...) {
			return true
		}
		for _, op := range t.Scr {
			if HasKind(op.Ts, kinds...) {
				return true
			}
		}
		for _, op := range t.FScr {
			if HasKind(op.Ts, kinds...) {
				return true
			}
		}
	}
	return false
}

// ExpectVisible substitutes the tokens of a model output keeping only what the
// STATEMENT declares visible: structure and the renderings declared safe.
// Envelope markers of the model output are dropped.
func (c *Ctx) ExpectVisible(out []int, rt []RtEntry, ts []*Term) []byte {
	cm := CtxMap(ts)
	terms := AllTerms(ts, nil)
	var b []byte
	for i := 0; i < len(out); i++ {
		x := out[i]
		switch {
		case x >= PTok:
			id := x - PTok
			t := terms[id]
			role := "ret"
			if t != nil && (t.K == "string" || t.K == "sstr") {
				role = "val"
			}
			if DeclClass(t, role, cm[id]) == 'S' {
				b = append(b, c.payload(id)...)
			}
		case x >= RTok:
			e := rt[x-RTok-1]
			if DeclClass(terms[e.ID], e.Rk, cm[e.ID]) == 'S' {
				b = append(b, c.RenderToken(e)...)
			}
		case x == 0xE2 && i+2 < len(out) && out[i+1] == 0x80 && (out[i+2] == 0xB9 || out[i+2] == 0xBA):
			i += 2
		default:
			b = append(b, byte(x))
		}
	}
	return b
}

// Publicity computes, for every payload id occurring in the operands (string
// contents, texts returned by methods, payloads of script operations, panic
// payloads, operands of nested Print calls), whether the STATEMENT makes it
// public (declared safe) or secret.  Used by C02 (public payloads are shared by
// the two instantiations) and by leak checks.
func Publicity(ts []*Term) map[int]bool {
	pub := map[int]bool{}
	for _, t := range ts {
		pubWalk(t, "none", false, pub)
	}
	return pub
}

func tokIDs(b []int) []int {
	var ids []int
	for _, x := range b {
		if x >= PTok {
			ids = append(ids, x-PTok)
		}
	}
	return ids
}

// tokIDsByEnvelope splits the payload tokens of a redactable's content into those outside and those inside its envelopes.
func tokIDsByEnvelope(b []int) (outside, inside []int) {
	open := false
	for i := 0; i < len(b); i++ {
		if i+2 < len(b) && b[i] == 0xE2 && b[i+1] == 0x80 && (b[i+2] == 0xB9 || b[i+2] == 0xBA) {
			open = b[i+2] == 0xB9
			i += 2
			continue
		}
		if b[i] >= PTok {
			if open {
				inside = append(inside, b[i]-PTok)
			} else {
				outside = append(outside, b[i]-PTok)
			}
		}
	}
	return
}

func pubWalk(t *Term, inh string, ro bool, pub map[int]bool) {
	if t == nil {
		return
	}
	own := inh
	if inh == "none" {
		switch {
		case t.K == "unsafe":
			own = "unsafe"
		case t.K == "safe":
			own = "safe"
		case hasCap(t, "REG") && !hasCap(t, "NILP"): // a registered type, whatever its kind
			own = "safe"
		case t.K == "obj" && hasCap(t, "SV") && !ro:
			own = "safe"
		case t.K == "sstr" && !ro:
			own = "safe"
		}
	}
	mark := func(ids []int, public bool) {
		for _, id := range ids {
			if old, ok := pub[id]; ok {
				pub[id] = old && public
			} else {
				pub[id] = public
			}
		}
	}
	switch t.K {
	case "int", "uint", "float", "bool":
		pub[-t.ID] = own == "safe" // leaf VALUES are keyed by the negated term id
	case "string", "sstr":
		mark(tokIDs(t.B), own == "safe")
	case "complex":
		pub[-t.ID] = own == "safe"
	case "rstring", "rbytes":
		// what stands inside the redactable's own envelopes is unsafe data like any other -- unless the whole operand
		// stands under a Safe() declaration (the outermost declaration wins: nested in a container such a wrapper is
		// rendered by the standard fmt, which shows the content with its markers escaped)
		outside, inside := tokIDsByEnvelope(t.B)
		mark(outside, own != "unsafe")
		mark(inside, own == "safe")
	case "obj":
		// the underlying value of the object (its methods' texts are classified below): public only if every
		// occurrence of the object stands under a safe declaration
		if old, ok := pub[-t.ID]; ok {
			pub[-t.ID] = old && own == "safe"
		} else {
			pub[-t.ID] = own == "safe"
		}
		mark(tokIDs(t.B), DeclClass(t, "ret", own) == 'S')
		for _, ops := range [][]SOp{t.Scr, t.FScr} {
			for _, op := range ops {
				switch op.O {
				case "SafeString", "SafeBytes":
					mark(tokIDs(op.B), own != "unsafe")
				case "UnsafeString", "UnsafeBytes", "Write", "WriteString":
					mark(tokIDs(op.B), own == "safe")
				}
				if op.O == "SafeInt" || op.O == "SafeUint" || op.O == "SafeFloat" {
					for _, x := range op.Ts { // the number is emitted through a safe method: public unless an Unsafe() encloses it
						pub[-x.ID] = own != "unsafe"
					}
					continue
				}
				for _, x := range op.Ts { // Print/Printf operands, panic payloads: printed under the same declaration
					pubWalk(x, own, false, pub)
				}
			}
		}
		for _, x := range t.Pan {
			pubWalk(x, own, false, pub)
		}
	}
	for i, x := range t.Xs {
		r := ro
		if (t.K == "struct" && t.Ro[i]) || t.K == "rvaluero" {
			r = true
		}
		pubWalk(x, own, r, pub)
	}
}

// MarkStarOperandsPublic: the operands a '*' width/precision reads are public by the statement of C02;
// conservatively every top-level int operand of a format that holds a '*' is treated as public.
func MarkStarOperandsPublic(pub map[int]bool, format []byte, ts []*Term) {
	star := false
	for _, c := range format {
		if c == '*' {
			star = true
		}
	}
	if !star {
		return
	}
	for _, t := range ts {
		if t.K == "int" || t.K == "uint" {
			pub[-t.ID] = true
		}
	}
}
