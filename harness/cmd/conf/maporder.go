package main

import (
	"encoding/json"
	"flag"
	"fmt"
	"math"
	"reflect"
	"regexp"

	"github.com/cockroachdb/redact"
	"github.com/cockroachdb/redact/verifharness/lib"
)

// maporder-drive (C02): "two calls that differ only in unsafe content (same shapes, same relative order of
// map keys) give identical results after Redact()".  Maps are printed in key order, so the order of the
// (visible) values is decided by comparisons of the (unsafe) keys: two key sets with the same relative order
// must give the same redacted text, wherever the keys sit in their type's range.  Exhaustive over all key
// subsets of size 2..3 of a 7-point alphabet per key kind (extremes of the range included), two
// instantiations each: the extreme one and an order-isomorphic tame one.

type moKey2 struct {
	A int64
	B int
}

type mapOrderCase struct {
	Kind  string `json:"kind"`
	KKind string `json:"kkind"`
	Ranks []int  `json:"ranks"`
}

// keyOf returns the key of the given kind and rank (0..6) in instantiation inst (0 extreme, 1 tame).
func keyOf(kkind string, rank, inst int) reflect.Value {
	i64 := [2][7]int64{{math.MinInt64, math.MinInt64 + 3, -2, 0, 1, math.MaxInt64 - 1, math.MaxInt64}, {-30, -20, -10, 0, 10, 20, 30}}
	u64 := [2][7]uint64{{0, 1, 1 << 31, 1 << 32, 1 << 63, math.MaxUint64 - 1, math.MaxUint64}, {1, 2, 3, 4, 5, 6, 7}}
	f64 := [2][7]float64{{math.Inf(-1), -math.MaxFloat64, -1e-300, 0, 5e-324, math.MaxFloat64, math.Inf(1)}, {-3, -2, -1, 0, 1, 2, 3}}
	i32 := [2][7]int32{{math.MinInt32, math.MinInt32 + 1, -1, 0, 1, math.MaxInt32 - 1, math.MaxInt32}, {-3, -2, -1, 0, 1, 2, 3}}
	i8 := [2][7]int8{{-128, -127, -1, 0, 1, 126, 127}, {-3, -2, -1, 0, 1, 2, 3}}
	str := [2][7]string{{"\x00", "\x00\x00", "A", "a", "a\x00", "\xc3\xa9", "\xff"}, {"k0", "k1", "k2", "k3", "k4", "k5", "k6"}}
	switch kkind {
	case "int64":
		return reflect.ValueOf(i64[inst][rank])
	case "int":
		return reflect.ValueOf(int(i64[inst][rank]))
	case "int32":
		return reflect.ValueOf(i32[inst][rank])
	case "int8":
		return reflect.ValueOf(i8[inst][rank])
	case "uint64":
		return reflect.ValueOf(u64[inst][rank])
	case "uintptr":
		return reflect.ValueOf(uintptr(u64[inst][rank]))
	case "float64":
		return reflect.ValueOf(f64[inst][rank])
	case "string":
		return reflect.ValueOf(str[inst][rank])
	case "array":
		return reflect.ValueOf([2]int64{7, i64[inst][rank]})
	case "struct":
		return reflect.ValueOf(moKey2{i64[inst][rank], 1})
	case "iface":
		var x interface{} = i64[inst][rank]
		return reflect.ValueOf(&x).Elem()
	}
	panic(kkind)
}

func buildMap(kkind string, ranks []int, inst int) interface{} {
	kt := keyOf(kkind, 0, inst).Type()
	m := reflect.MakeMap(reflect.MapOf(kt, reflect.TypeOf(redact.SafeString(""))))
	for _, r := range ranks {
		m.SetMapIndex(keyOf(kkind, r, inst), reflect.ValueOf(redact.SafeString(fmt.Sprintf("r%d", r))))
	}
	return m.Interface()
}

func judgeMapOrder(rep *lib.Report, k mapOrderCase) {
	type holder struct {
		M interface{}
		N int
	}
	var outs [2][]string
	for inst := 0; inst < 2; inst++ {
		m := buildMap(k.KKind, k.Ranks, inst)
		for rpt := 0; rpt < 3; rpt++ { // Go randomises map iteration: the result may not depend on it
			outs[inst] = append(outs[inst],
				string(redact.Sprintf("%v", m).Redact()),
				string(redact.Sprintf("%+v", &holder{m, 1}).Redact()),
				string(redact.Sprint([]interface{}{m}).Redact()))
		}
		rep.AddEval(9)
	}
	for i := range outs[0] {
		if outs[0][i] != outs[1][i] || outs[0][i] != outs[0][i%3] {
			rep.Violate("maporder:interference", fmt.Sprintf("map[%s] with keys of ranks %v: the redacted text depends on where the unsafe keys sit in their range (or on the iteration order): %q vs %q",
				k.KKind, k.Ranks, outs[0][i], outs[1][i]), k)
			return
		}
	}
	// ascending ranks are what the (visible) values must show
	var seen []int
	for _, m := range regexp.MustCompile(`:r(\d)`).FindAllStringSubmatch(outs[0][0], -1) {
		seen = append(seen, int(m[1][0]-'0'))
	}
	if fmt.Sprint(seen) != fmt.Sprint(sortedInts(k.Ranks)) {
		rep.Violate("maporder:order", fmt.Sprintf("map[%s] with keys of ranks %v prints %q: values in the order %v", k.KKind, k.Ranks, outs[0][0], seen), k)
	}
	rep.Nontrivial(k.KKind + fmt.Sprint(k.Ranks))
}

func sortedInts(x []int) []int {
	out := append([]int(nil), x...)
	for i := range out {
		for j := i + 1; j < len(out); j++ {
			if out[j] < out[i] {
				out[i], out[j] = out[j], out[i]
			}
		}
	}
	return out
}

func mapOrderDrive(args []string) {
	fs := flag.NewFlagSet("maporder-drive", flag.ExitOnError)
	prop := fs.String("prop", "C02", "")
	fs.Parse(args)
	rep := lib.NewReport(*prop, "maporder-drive")
	for _, kk := range []string{"int64", "int", "int32", "int8", "uint64", "uintptr", "float64", "string", "array", "struct", "iface"} {
		for a := 0; a < 7; a++ {
			for b := 0; b < 7; b++ {
				for c := -1; c < 7; c++ {
					if a == b || a == c || b == c {
						continue
					}
					ranks := []int{a, b}
					if c >= 0 {
						ranks = append(ranks, c)
					}
					k := mapOrderCase{"maporder", kk, ranks}
					rep.Guard("maporder:panic", k, func() { judgeMapOrder(rep, k) })
				}
			}
		}
	}
	rep.SampleIfFew(map[string]string{"example": string(redact.Sprintf("%v", buildMap("int64", []int{0, 4}, 0)))})
	rep.Finish()
}

func init() {
	register("maporder-drive", "C02: map key order over the extremes of each key kind's range, two order-isomorphic instantiations", mapOrderDrive)
	extraReplayers["maporder"] = func(rep *lib.Report, prop string, raw json.RawMessage) {
		var k mapOrderCase
		_ = json.Unmarshal(raw, &k)
		judgeMapOrder(rep, k)
	}
}
