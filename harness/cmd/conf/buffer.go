package main

import (
	"bytes"
	"encoding/json"
	"flag"
	"fmt"
	"os"
	"runtime"
	"strings"
	"unicode/utf8"

	"github.com/cockroachdb/redact/internal/buffer"
	"github.com/cockroachdb/redact/internal/markers"
	"github.com/cockroachdb/redact/verifharness/lib"
)

// BOp is one buffer operation as data, the same record the specification
// uses (Buffer!Op).
type BOp struct {
	Op string `json:"op"`
	P  lib.B  `json:"p"`
	N  int    `json:"n"`
}

type bufLine struct {
	H   []BOp        `json:"h"`
	St  lib.BufState `json:"st"`
	Out lib.B        `json:"out"`
	Ds  lib.B        `json:"ds"`
	Dd  lib.B        `json:"dd"`
	Ok  bool         `json:"ok"`
}

type bufCase struct {
	Kind    string `json:"kind"`
	H       []BOp  `json:"h"`
	Variant int    `json:"variant"`
}

// applyBOp performs one operation on a real buffer.  variant bit 0 selects
// WriteString instead of Write and TakeRedactableBytes instead of
// TakeRedactableString; bit 1 inserts accessor calls after every operation.
func applyBOp(b *buffer.Buffer, o BOp, variant int) (taken []byte, isTake bool) {
	if variant&4 != 0 && (o.Op == "W" || o.Op == "WB" || o.Op == "WR") {
		// the way builder.StringBuilder drives the buffer: the mode is set before every write,
		// also when it does not change (a no-op by the contract of SetMode)
		b.SetMode(b.GetMode())
	}
	switch o.Op {
	case "W":
		if variant&1 == 0 {
			n, err := b.Write(o.P)
			if n != len(o.P) || err != nil {
				panic(fmt.Sprintf("Write returned (%d,%v) for %d bytes", n, err, len(o.P)))
			}
		} else {
			n, err := b.WriteString(string(o.P))
			if n != len(o.P) || err != nil {
				panic(fmt.Sprintf("WriteString returned (%d,%v) for %d bytes", n, err, len(o.P)))
			}
		}
	case "WB":
		if err := b.WriteByte(byte(o.N)); err != nil {
			panic(err)
		}
	case "WR":
		if err := b.WriteRune(rune(o.N)); err != nil {
			panic(err)
		}
	case "SM":
		b.SetMode(buffer.OutputMode(o.N))
	case "RST":
		b.Reset()
	case "TK":
		if variant&1 == 0 {
			return []byte(b.TakeRedactableString()), true
		}
		return []byte(b.TakeRedactableBytes()), true
	case "ACC":
		callAccessors(b)
	case "GR":
		b.Grow(o.N)
	default:
		panic("unknown op " + o.Op)
	}
	return nil, false
}

type accResult struct {
	Len  int
	Str  string
	RS   string
	RB   string
	Mode int
}

func callAccessors(b *buffer.Buffer) accResult {
	var r accResult
	r.Len = b.Len()
	_ = b.Cap()
	r.Str = b.String()
	r.RS = string(b.RedactableString())
	r.RB = string(b.RedactableBytes())
	r.Mode = int(b.GetMode())
	return r
}

// runBufHistory replays h on a fresh buffer.  Returns the final hidden state,
// the final RedactableString, and a description of a panic if one happened.
func runBufHistory(h []BOp, variant int) (st lib.BufState, out []byte, acc accResult, panicked string, accImpure string) {
	var b buffer.Buffer
	func() {
		defer func() {
			if r := recover(); r != nil {
				panicked = fmt.Sprint(r)
			}
		}()
		// every string handed out earlier is kept (the very value, which may alias the buffer's
		// backing array) next to a private copy; later writes must never change it (C13)
		type kept struct {
			at   int
			live string
			copy string
		}
		type keptBytes struct {
			at   int
			live []byte
			copy []byte
		}
		var keepB []keptBytes
		defer func() {
			for _, k := range keepB {
				if !bytes.Equal(k.live, k.copy) {
					accImpure = fmt.Sprintf("the byte slice obtained from Take at op %d changed from %q to %q by later operations", k.at, k.copy, k.live)
				}
			}
		}()
		var earlier []kept
		keep := func(i int, s string) { earlier = append(earlier, kept{i, s, string(append([]byte(nil), s...))}) }
		defer func() {
			for _, k := range earlier {
				if k.live != k.copy {
					accImpure = fmt.Sprintf("the string obtained at op %d changed from %q to %q by later operations", k.at, k.copy, k.live)
				}
			}
		}()
		for i, o := range h {
			var before []byte
			if o.Op == "TK" {
				before = []byte(b.RedactableString())
			}
			var taken []byte
			var isTake bool
			if o.Op == "TK" && variant&1 == 0 {
				s := string(b.TakeRedactableString()) // string(x) of a string type does not copy: the alias is kept
				keep(i, s)
				taken, isTake = []byte(s), true
			} else {
				taken, isTake = applyBOp(&b, o, variant)
				if isTake {
					// TakeRedactableBytes: the very slice (it may alias retained storage) and a private copy
					keepB = append(keepB, keptBytes{i, taken, append([]byte(nil), taken...)})
					taken = append([]byte(nil), taken...)
				}
			}
			if isTake && !bytes.Equal(taken, before) {
				accImpure = fmt.Sprintf("op %d: Take returned %q but RedactableString said %q", i, taken, before)
			}
			if variant&2 != 0 && i%2 == 0 {
				keep(i, string(b.RedactableString()))
			}
			if variant&2 != 0 {
				pre := lib.ReadBuf(&b)
				callAccessors(&b)
				if post := lib.ReadBuf(&b); !pre.Equal(post) {
					accImpure = fmt.Sprintf("op %d: accessors changed the hidden state %+v -> %+v", i, pre, post)
				}
			}
		}
		st = lib.ReadBuf(&b)
		acc = callAccessors(&b)
		if post := lib.ReadBuf(&b); !st.Equal(post) {
			accImpure = fmt.Sprintf("final accessors changed the hidden state %+v -> %+v", st, post)
		}
		out = []byte(acc.RS)
	}()
	return
}

// denoteHistory computes, from the history alone, what C09 says the stripped
// text and the visible text must be, and whether the side condition (valid
// UTF-8 payloads, valid runes) holds.  Mode tracking uses only SetMode /
// Reset / Take arguments, not the implementation.
func denoteHistory(h []BOp) (strip, vis []byte, ok bool) {
	mode := 0
	ok = true
	add := func(p []byte) {
		switch mode {
		case 0:
			strip = append(strip, lib.EscapeAll(p)...)
			vis = append(vis, lib.OnlyNL(p)...)
		case 1:
			strip = append(strip, lib.EscapeAll(p)...)
			vis = append(vis, lib.EscapeAll(p)...)
		case 2:
			strip = append(strip, lib.Strip(p)...)
			vis = append(vis, lib.DeleteEnvelopes(p)...)
		}
	}
	for _, o := range h {
		switch o.Op {
		case "W":
			ok = ok && utf8.Valid(o.P)
			add(o.P)
		case "WB":
			ok = ok && o.N < 128
			if mode == 0 && o.N >= 128 {
				add([]byte{'?'})
			} else {
				add([]byte{byte(o.N)})
			}
		case "WR":
			ok = ok && utf8.ValidRune(rune(o.N))
			add([]byte(string(rune(o.N))))
		case "SM":
			mode = o.N
		case "RST", "TK":
			mode, strip, vis, ok = 0, nil, nil, true
		}
	}
	return
}

// judgeBuffer evaluates the properties' predicates on one real result.
func judgeBuffer(rep *lib.Report, prop string, h []BOp, variant int, st lib.BufState, out []byte, acc accResult, panicked, accImpure string) {
	kase := bufCase{"buffer", h, variant}
	is := func(p string) bool { return prop == p || prop == "ALL" }
	if panicked != "" {
		if is("C11") {
			rep.Violate("buffer:"+lastOp(h)+":panic", "panic: "+panicked, kase)
		}
		return
	}
	wf := lib.WellFormed(out)
	if is("C01") && !wf {
		rep.Violate("buffer:illformed", "output not well-formed: "+lib.Q(out), kase)
	}
	if (is("C09") || is("C10")) && !wf {
		// (C10: a marker that data brought in survives exactly when the output is not what the library's own markers make)
		rep.Violate("buffer:illformed", "output not well-formed: "+lib.Q(out), kase)
	}
	if is("C03") || is("C09") {
		if wf && !lib.LineSafe(out) {
			rep.Violate("buffer:linespan", "envelope spans a line feed: "+lib.Q(out), kase)
		}
	}
	if is("C03") && wf {
		red := func(b []byte) []byte { return []byte(markers.RedactableBytes(b).Redact()) }
		str := func(b []byte) []byte { return markers.RedactableBytes(b).StripMarkers() }
		if !lib.PerLineOK(out, red, str) {
			rep.Violate("buffer:perline", "line-wise redact/strip differs from whole: "+lib.Q(out), kase)
		}
	}
	if (is("C09") || is("C10")) && wf {
		ds, dd, ok := denoteHistory(h)
		if ok {
			if got := lib.Strip(out); !bytes.Equal(got, ds) {
				rep.Violate("buffer:strip", fmt.Sprintf("stripped output %q, payload history says %q", got, ds), kase)
			}
			if got := lib.DeleteEnvelopes(out); !bytes.Equal(got, dd) {
				rep.Violate("buffer:visible", fmt.Sprintf("visible text %q, payload history says %q", got, dd), kase)
			}
		}
	}
	if accImpure != "" && strings.Contains(accImpure, "changed from") && (is("C01") || is("C02") || is("C03") || is("C09") || is("C12")) {
		// a produced string that changes afterwards is not the string the property speaks of any more
		rep.Violate("buffer:result-mutated", accImpure, kase)
	}
	if is("C13") {
		if accImpure != "" {
			rep.Violate("buffer:accessor", accImpure, kase)
		}
		if acc.Len != len(acc.RS) {
			rep.Violate("buffer:len", fmt.Sprintf("Len()=%d but RedactableString has %d bytes", acc.Len, len(acc.RS)), kase)
		}
		if acc.RS != acc.RB {
			rep.Violate("buffer:rs-rb", fmt.Sprintf("RedactableString %q != RedactableBytes %q", acc.RS, acc.RB), kase)
		}
		if acc.Str != string(lib.Strip([]byte(acc.RS))) {
			rep.Violate("buffer:string", fmt.Sprintf("String() %q is not the stripped RedactableString %q", acc.Str, acc.RS), kase)
		}
		// pristine after Reset/Take: the suffix after the last one, on a new object
		if k := lastResetIdx(h); k >= 0 {
			_, out2, _, p2, _ := runBufHistory(h[k+1:], variant&1)
			if p2 == "" && !bytes.Equal(out2, out) {
				rep.Violate("buffer:pristine", fmt.Sprintf("after %s the continuation gives %q, a new buffer gives %q", h[k].Op, out, out2), kase)
			}
		}
	}
}

func lastOp(h []BOp) string {
	if len(h) == 0 {
		return "none"
	}
	return h[len(h)-1].Op
}

func lastResetIdx(h []BOp) int {
	for i := len(h) - 1; i >= 0; i-- {
		if h[i].Op == "RST" || h[i].Op == "TK" {
			return i
		}
	}
	return -1
}

func bufferReplay(args []string) {
	fs := flag.NewFlagSet("buffer-replay", flag.ExitOnError)
	prop := fs.String("prop", "ALL", "property whose predicates decide")
	fs.Parse(args)
	rep := lib.NewReport(*prop, "buffer-replay")
	lib.Parallel(runtime.NumCPU(), func(emit func([]byte)) {
		_ = lib.TLCLines(os.Stdin, func(raw []byte) { emit(append([]byte(nil), raw...)) })
	}, func(raw []byte) {
		var ln bufLine
		if err := json.Unmarshal(raw, &ln); err != nil || ln.H == nil {
			return
		}
		rep.AddReplayed(1)
		var outs [6][]byte
		for variant := 0; variant < 6; variant++ {
			st, out, acc, panicked, imp := runBufHistory(ln.H, variant)
			outs[variant] = out
			rep.AddEval(1)
			if variant >= 4 {
				// variants 4, 5: variants 0, 1 with SetMode(current mode) before every write
				if panicked == "" && outs[variant-4] != nil && !bytes.Equal(out, outs[variant-4]) && (*prop == "C10" || *prop == "C09" || *prop == "C13" || *prop == "ALL") {
					rep.Violate("buffer:setmode-noop", fmt.Sprintf("with SetMode(current mode) before every write the result is %q instead of %q", out, outs[variant-4]), bufCase{"buffer", ln.H, variant})
				}
				judgeBuffer(rep, *prop, ln.H, variant, st, out, acc, panicked, imp)
				continue
			}
			judgeBuffer(rep, *prop, ln.H, variant, st, out, acc, panicked, imp)
			if panicked != "" {
				continue
			}
			// conformance with the model's prediction (drift, not violation)
			if !st.Equal(ln.St) {
				rep.DriftAt(fmt.Sprintf("hidden state %+v, model %+v, history %s", st, ln.St, histString(ln.H)))
			} else if !bytes.Equal(out, ln.Out) {
				rep.DriftAt(fmt.Sprintf("output %q, model %q, history %s", out, ln.Out, histString(ln.H)))
			}
			if variant == 0 {
				ds, dd, ok := denoteHistory(ln.H)
				if ok != ln.Ok || (ok && (!bytes.Equal(ds, ln.Ds) || !bytes.Equal(dd, ln.Dd))) {
					rep.DriftAt(fmt.Sprintf("denotation oracle disagrees with the model on %s", histString(ln.H)))
				}
			}
		}
		if (*prop == "C13" || *prop == "ALL") && outs[0] != nil && outs[2] != nil && !bytes.Equal(outs[0], outs[2]) {
			rep.Violate("buffer:accessor", fmt.Sprintf("result with accessor calls inserted %q differs from %q", outs[2], outs[0]), bufCase{"buffer", ln.H, 2})
		}
		rep.Nontrivial(fmt.Sprintf("%v|%d|%d|%v", []byte(ln.St.Buf), ln.St.Valid, ln.St.Mode, ln.St.Open))
		if len(ln.H) >= 2 && len(ln.Out) > 4 {
			rep.Sample(map[string]interface{}{"history": histString(ln.H), "real_output": string(outs[0]), "model_output": string(ln.Out)})
		}
	})
	rep.Finish()
}

func histString(h []BOp) string {
	var sb bytes.Buffer
	for i, o := range h {
		if i > 0 {
			sb.WriteString("; ")
		}
		switch o.Op {
		case "W":
			fmt.Fprintf(&sb, "Write(%q)", string(o.P))
		case "WB":
			fmt.Fprintf(&sb, "WriteByte(0x%02x)", o.N)
		case "WR":
			fmt.Fprintf(&sb, "WriteRune(%#x)", o.N)
		case "SM":
			fmt.Fprintf(&sb, "SetMode(%d)", o.N)
		default:
			sb.WriteString(o.Op)
		}
	}
	return sb.String()
}

func init() {
	register("buffer-replay", "replay MCBuffer transitions (stdin: TLC output) on the real Buffer", bufferReplay)
}
