// Command conf is the conformance harness that binds the TLA+ specification
// in /verif/spec to the implementation in /repo: it replays model
// transitions emitted by TLC on the real code, records traces of the real
// code for TLC to validate, and evaluates the properties' own predicates on
// every real result.
package main

import (
	"fmt"
	"os"
)

type command struct {
	name string
	run  func(args []string)
	doc  string
}

var commands []command

func register(name, doc string, run func(args []string)) {
	commands = append(commands, command{name, run, doc})
}

func main() {
	if len(os.Args) < 2 {
		usage()
	}
	for _, c := range commands {
		if c.name == os.Args[1] {
			c.run(os.Args[2:])
			return
		}
	}
	usage()
}

func usage() {
	fmt.Fprintln(os.Stderr, "usage: conf <command> [flags]")
	for _, c := range commands {
		fmt.Fprintf(os.Stderr, "  %-18s %s\n", c.name, c.doc)
	}
	os.Exit(2)
}
