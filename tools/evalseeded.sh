#!/bin/sh
# regression over all confirmed seeded changes: each against the quick check of its own property
tier=${1:-quick}
for d in /verif/seeded/*/; do
  id=$(basename $d); p=$(echo $id | cut -c1-3)
  echo "$id: $(/verif/tools/evalmut.sh $d $p $tier 2>&1 | tr '\n' ' ' | cut -c1-160)"
done
