#!/usr/bin/env python3
"""Prepares round N of seeded-change collection: one scratch worktree of /repo and one self-contained prompt per
property under /tmp/mutN (the prompt holds the property text and one-line descriptions of the changes already stored,
nothing else from /verif).  usage: mkmutround.py N"""
import json, re, subprocess, os, sys
N = sys.argv[1]
root = f'/tmp/mut{N}'
os.makedirs(root, exist_ok=True)
os.makedirs(f'/var/tmp/mut{N}-backup', exist_ok=True)
props = {json.loads(l)['id']: json.loads(l) for l in open('/verif/properties.jsonl')}
design = open('/verif/DESIGN.md').read()
rows = re.findall(r'^\| (C\d\d)-(\d+) \| (.*?) \| (?:missed|detected|broken check|missed \(drift only\))', design, flags=re.M)
prev = {}
for p, k, desc in rows:
    prev.setdefault(p, []).append(desc.strip())
for pid, pr in sorted(props.items()):
    w = f'{root}/{pid}'
    if not os.path.exists(w):
        subprocess.run(['git', '-C', '/repo', 'worktree', 'add', '-q', '--detach', w, 'HEAD'], check=True)
    text = json.dumps({k: pr[k] for k in ('id', 'title', 'statement', 'quantifier', 'why_tests_cant', 'anchors')}, indent=1, ensure_ascii=False)
    avoid = "\n".join("- " + d for d in prev.get(pid, []))
    prompt = f'''You are helping to evaluate a verification effort for the Go library cockroachdb/redact. You have your own scratch git worktree of the library at {w} (work ONLY there; do not read or touch /repo, /verif or any other directory; there is no network; use `export GOFLAGS=-mod=mod GOPROXY=off GOSUMDB=off GOTOOLCHAIN=local` before go commands).

Here is one semantic property the library is supposed to satisfy:

{text}

Your task: produce TWO different, realistic changes to the library's source (the kind of change a maintainer could plausibly make: an optimisation, a refactoring, a "simplification", a merge accident, an off-by-one, a boundary condition, a caching idea, a concurrency tweak, a new convenience in the public API glue) each of which BREAKS this property, while the package still compiles and the ENTIRE existing test suite still passes (`go test -vet=off -count=1 ./...` in {w} must print ok for every package). The changes should be SUBTLE: prefer ones that need something specific to manifest (a particular kind or size of value, nesting depth, verb/flag/width combination, position inside a container, history of earlier calls in the process, buffer capacity, schedule of goroutines, a registered hook or type) -- not changes that break almost every call. {len(prev.get(pid, []))} changes per property have been tried already; the two new ones must use different mechanisms and different code sites from each other and from these earlier ones (do not repeat them or close variants):
{avoid}

Notes on the source tree: files named verif_on.go / verif_off.go and statements of the form `if verifOn {{ ... }}` are tracing hooks of the evaluation harness (dead code in a normal build). Leave them exactly as they are, do not make your change depend on them and do not place your change inside them; your change must also compile with `go build -tags verif ./...`.

For each change k in {{1, 2}} create the directory {w}/_mut/k/ containing:
  - patch.diff   : the change as `git diff` output against the clean worktree HEAD (only library source files; no test files, no files under _mut)
  - demo_test.go : a Go test file in `package redact_test` (it will be copied to the root directory of the module as zz_demo_test.go) containing `func TestDemo(t *testing.T)` that FAILS with the change applied and PASSES on the clean tree; it demonstrates the broken clause of the property using only the public API of github.com/cockroachdb/redact (and the standard library)
  - README.md    : which clause of the property is broken, the code site, the mechanism, exactly what is needed for it to manifest, and why the existing tests do not notice.
Verify everything yourself before finishing: starting from a clean tree (`git -C {w} checkout -- . && git -C {w} clean -fdq -e _mut`), (1) demo passes on the clean tree, (2) apply patch: whole suite passes, (3) demo fails with the patch. Leave the worktree clean (patch not applied) at the end, with only the _mut directory added. Finally copy the whole _mut directory to /var/tmp/mut{N}-backup/{pid}/ (mkdir -p first; copy only when both changes are complete and verified). Reply with a short summary of the two changes (one line each) and the verification you did.'''
    open(f'{root}/{pid}.prompt.txt', 'w').write(prompt)
print({k: len(v) for k, v in prev.items()})
