#!/usr/bin/env python3
"""Stores the confirmed changes of round N under /verif/seeded (ids Cxx-<base+k>).
usage: importround.py N BASE FIRSTLOG[,FIRSTLOG2] CURRENTLOG
 FIRSTLOG / CURRENTLOG: outputs of tools/evalall.sh (lines 'Cxx/k: CONFIRMED DETECTED|MISSED ...')."""
import json, os, re, shutil, sys, datetime
N, base, firsts, cur = sys.argv[1], int(sys.argv[2]), sys.argv[3].split(','), sys.argv[4]
def parse(path):
    out = {}
    for l in open(path):
        m = re.match(r'(C\d\d)/(\d+): (.*)', l)
        if m:
            out[(m.group(1), int(m.group(2)))] = m.group(3).strip()
    return out
first = {}
for f in firsts:
    for k, v in parse(f).items():
        first.setdefault(k, v)
current = parse(cur)
nprev = base
for (p, k), res in sorted(current.items()):
    src = f'/tmp/mut{N}/{p}/_mut/{k}'
    if not os.path.exists(src + '/patch.diff'):
        src = f'/var/tmp/mut{N}-backup/{p}/_mut/{k}'
    if 'CONFIRMED' not in res:
        print('not confirmed, skipped:', p, k, res[:80]); continue
    sid = f'{p}-{base + k}'
    dst = f'/verif/seeded/{sid}'
    os.makedirs(dst, exist_ok=True)
    shutil.copy(src + '/patch.diff', dst + '/patch.diff')
    shutil.copy(src + '/demo_test.go', dst + '/demo_test.go')
    fe = first.get((p, k), '')
    meta = {
        "id": sid, "property": p, "round": int(N),
        "origin": f"sub-agent given only the property text (plus one-line descriptions of the {base} earlier changes per property to avoid) and a scratch worktree of the current tree (repairs and tracing hooks included)",
        "needs_to_manifest": open(src + '/README.md').read() if os.path.exists(src + '/README.md') else "",
        "confirmed": "scratch worktree /tmp/mutcheck.*: patch applies; `go test -vet=off -count=1 ./...` passes with it; demo (TestDemo) fails with it and passes without it (tools/evalmut.sh)",
        "ran": f"tools/evalmut.sh: scratch worktree of /repo with patch.diff applied; VERIF_REPO=<worktree> ./check {p} --tier quick (equivalent to: git -C /repo apply patch.diff; ./check {p} --tier quick; git -C /repo checkout -- .)",
        "first_evaluation": "detected" if 'DETECTED' in fe else ("missed" if 'MISSED' in fe else fe[:60]),
        "current_result": re.sub(r'^CONFIRMED ', '', res) + f" (tools/evalmut.sh, {datetime.date.today()})",
    }
    json.dump(meta, open(dst + '/meta.json', 'w'), indent=1, ensure_ascii=False)
    print(sid, meta['first_evaluation'], '->', meta['current_result'][:60])
