------------------------------ MODULE MCWriter ------------------------------
(***************************************************************************)
(* C09: every sequence of at most MaxOps SafeWriter calls, fed in lockstep *)
(* to the three implementations of the interface:                          *)
(*   sb  builder.StringBuilder            (Printer!SBRun)                  *)
(*   fn  the printer handed to Sprintfn   (unsafe ambient mode)            *)
(*   sf  the printer handed to SafeFormat (safe ambient mode)              *)
(* The DENOTATION of the history -- what StripMarkers and envelope         *)
(* deletion must give -- is computed from the calls alone.                 *)
(***************************************************************************)
EXTENDS Printer, TLC, Json

CONSTANTS MaxOps, OpSetName, EmitOn
VARIABLES h
vars == <<h>>

A == 97
IntT(i)  == TInt(70 + i, 40 + i)
StrT(i, b) == TStr(80 + i, b)
Fxvy == <<120, 37, 118, 121>>                 \* "x%vy"
Fxpp == <<120, 37, 37>>                       \* "x%%": a format without operands still goes through the directive parser

QOps == { SSafeString(<<A>>), SSafeString(StartM), SSafeString(<<194, 186>>), SUnsafeString(<<A>> \o RuneErrorBytes), SSafeUint(76, -1), SSafeString(<<A>> \o EndM), SUnsafeString(<<A>>), SUnsafeString(<<NL, A>>), SUnsafeString(<<>>),
          SUnsafeString(EndM), SSafeRune(8250), SUnsafeRune(233), SUnsafeRune(NL), SUnsafeByte(226), SSafeInt(71, 41),
          SPrint(<<StrT(1, <<A, NL>>)>>), SPrint(<<TSafe(90, StrT(2, <<A>>))>>), SPrintf(Fxvy, <<IntT(2)>>), SWrite(<<A>>), SWriteStr(<<NL, A>>), SWriteByte(A), SWriteRune(8250), SUnsafeBytes(<<A, NL, A>>), SPrintf(Fxpp, <<>>),
          \* (every method of the SafeWriter interface at least once in the quick set)
          SSafeByte(A), SSafeBytes(<<A>>), SSafeFloat(77),
          \* a marker assembled from two safe calls: its first byte alone, then the rest
          SSafeByte(226), SSafeString(<<128, 185>>),
          \* joining: a slice, a nil operand
          SJoinTo(<<44>>, 160, TSlice(161, <<TStr(162, <<A>>), TInt(163, 46)>>)), SJoinTo(<<44>>, 160, TNil(164)) }
TOps == QOps \cup { SSafeString(<<NL>>), SSafeBytes(Cross), SUnsafeBytes(<<A, 226>>), SSafeByte(A), SUnsafeString(<<PTok + 5>>),
                    SSafeRune(55296), SUnsafeRune(8249), SPrint(<<IntT(3), StrT(3, <<A>>)>>), SSafeString(<<>>),
                    SPrintf(<<37, 118, 37, 118>>, <<StrT(4, <<A>>), TSafe(91, IntT(4))>>), SWrite(<<NL>>), SSafeString(<<226, 128>>), SWriteStr(StartM), SWriteByte(226), SWriteByte(NL), SWriteRune(55296), SWriteRune(128512),
                    SSafeUint(76, -1), SSafeFloat(77), SSafeString(RuneErrorBytes), SSafeString(<<226, 130, 186>>), SPrint(<<StrT(5, <<>>)>>), SSafeString(EndM), SSafeBytes(<<A>> \o EndM),
                    \* joining: a delimiter that holds an envelope, an empty slice, non-slice operands, a typed slice
                    SJoinTo(<<A>> \o StartM \o <<A>> \o EndM, 176, TSlice(175, <<TInt(165, 47), TInt(166, 48), TStr(167, <<A, 226>>)>>)), SJoinTo(<<44>>, 160, TSlice(174, <<>>)),
                    SJoinTo(<<44>>, 160, TInt(168, 49)), SJoinTo(<<44>>, 160, TStr(169, <<A>>)), SJoinTo(<<44>>, 160, TNilPtr(170)),
                    SJoinTo(<<44>>, 160, TTSlice(171, <<TStr(172, <<A>>), TStr(173, StartM)>>)) }
Ops == IF OpSetName = "T" THEN TOps ELSE QOps

Init == h = <<>>
Next == Len(h) < MaxOps /\ \E op \in Ops : h' = Append(h, op)
Spec == Init /\ [][Next]_vars

---------------------------------------------------------------------------
\* denotation: <<stripped text, visible text, all payloads valid UTF-8, renderings so far>>
TermClassSafe(t) == t.k \in {"safe", "nil"}              \* a nil operand prints as <nil>, in the clear
RECURSIVE ArgText(_, _)          \* <<text, nr'>> of one Print operand printed with %v
ArgText(t, nr) == CASE t.k = "string" -> <<t.b, nr>>
                    [] t.k = "nil"    -> <<NilAngle, nr>>
                    [] t.k = "safe"   -> ArgText(t.xs[1], nr)
                    [] OTHER          -> <<<<RTok + nr + 1>>, nr + 1>>
TextOK(b) == ValidUTF8(b)
Esc(b) == EscapeMarkers(b)

RECURSIVE DenArgs(_, _, _, _)    \* Print(ts): operands separated as doPrint does; acc = <<strip, vis, ok, nr>>
DenArgs(ts, i, prevString, acc) ==
  IF i > Len(ts) THEN acc
  ELSE LET t == ts[i]
           isString == IsStringKind(t)
           sp == IF i > 1 /\ ~isString /\ ~prevString THEN <<SP>> ELSE <<>>
           at == ArgText(t, acc[4])
           safe == TermClassSafe(t)
       IN IF t.k = "rstring"                        \* pre-redacted: passes through as it is
          THEN DenArgs(ts, i + 1, TRUE, << acc[1] \o Strip(t.b), acc[2] \o DeleteEnvelopes(t.b), acc[3], acc[4] >>)
          ELSE
          DenArgs(ts, i + 1, isString,
                  << acc[1] \o sp \o Esc(at[1]), acc[2] \o sp \o (IF safe THEN Esc(at[1]) ELSE OnlyOf(at[1], NL)),
                     acc[3] /\ TextOK(at[1]), at[2] >>)

RECURSIVE DenJoin(_, _)
DenJoin(ops, acc) == IF ops = <<>> THEN acc ELSE DenJoin(Tail(ops), DenArgs(Head(ops).ts, 1, FALSE, acc))

DenOp(op, acc) ==
  LET add(txt, safe, ok) == << acc[1] \o Esc(txt), acc[2] \o (IF safe THEN Esc(txt) ELSE OnlyOf(txt, NL)), acc[3] /\ ok, acc[4] >>
  IN CASE op.o \in {"SafeString", "SafeBytes"} -> add(op.b, TRUE, TextOK(op.b))
       [] op.o \in {"UnsafeString", "UnsafeBytes", "Write", "WriteString"} -> add(op.b, FALSE, TextOK(op.b))
       [] op.o = "WriteRune"  -> add(EncodeRune(op.n), FALSE, ValidRune(op.n))
       [] op.o = "WriteByte"  -> add(IF op.n >= 128 THEN <<Q>> ELSE <<op.n>>, FALSE, op.n < 128)
       [] op.o = "SafeRune"   -> add(EncodeRune(op.n), TRUE, ValidRune(op.n))
       [] op.o = "UnsafeRune" -> add(EncodeRune(op.n), FALSE, ValidRune(op.n))
       [] op.o = "SafeByte"   -> add(<<op.n>>, TRUE, op.n < 128)
       [] op.o = "UnsafeByte" -> add(IF op.n >= 128 THEN <<Q>> ELSE <<op.n>>, FALSE, op.n < 128)
       [] op.o \in {"SafeInt", "SafeUint", "SafeFloat"} ->
                                 << acc[1] \o <<RTok + acc[4] + 1>>, acc[2] \o <<RTok + acc[4] + 1>>, acc[3], acc[4] + 1 >>
       [] op.o = "Print"      -> DenArgs(op.ts, 1, FALSE, acc)
       [] op.o = "JoinTo"     -> DenJoin(JoinOps(op), acc)
       \* Printf formats of the op sets are literal / %v only: literals are safe text
       [] op.o = "Printf"     -> IF op.f = Fxpp THEN << acc[1] \o <<120, 37>>, acc[2] \o <<120, 37>>, acc[3], acc[4] >>
                                 ELSE IF op.f = Fxvy
                                 THEN LET a == DenArgs(op.ts, 1, TRUE, << acc[1] \o <<120>>, acc[2] \o <<120>>, acc[3], acc[4] >>)
                                      IN << a[1] \o <<121>>, a[2] \o <<121>>, a[3], a[4] >>
                                 ELSE DenArgs(<<op.ts[2]>>, 1, TRUE, DenArgs(<<op.ts[1]>>, 1, TRUE, acc))
RECURSIVE Den(_, _)
Den(ops, acc) == IF ops = <<>> THEN acc ELSE Den(Tail(ops), DenOp(Head(ops), acc))

Holds(name, cond) == IF cond THEN TRUE ELSE PrintT(<<"INVARIANT-FAILED", name, h>>) /\ FALSE

\* the ONE zero-arity definition that reaches the printer operators (see MCPrinter)
Check ==
  LET sb == SBRun(h)
      fn == Sprintfn(h)
      sf == Sprint(<<TObj(990, {"SF"}, h, <<>>, <<>>, <<>>)>>)
      d  == Den(h, <<<<>>, <<>>, TRUE, 0>>)
      Good(r) == /\ ~Exc(r)
                 /\ WellFormed(Out(r)) /\ LineSafe(Out(r))                       \* C01, C03
                 /\ d[3] => /\ Strip(Out(r)) = d[1]                               \* each payload once, in order
                            /\ DeleteEnvelopes(Out(r)) = d[2]                     \* on its own side
  IN /\ Holds("builder", Good(sb))
     /\ Holds("sprintfn", Good(fn))
     /\ Holds("safeformat", Good(sf))
     \* (with truncated UTF-8 the implementations place the '?' guard at different points: the builder keeps
     \*  its mode between calls, the printer returns to the ambient mode after each one)
     /\ Holds("agree", d[3] => (NormOf(Out(sb)) = NormOf(Out(fn)) /\ NormOf(Out(fn)) = NormOf(Out(sf))))
     /\ Holds("renderings", sb.rt = fn.rt /\ fn.rt = sf.rt)
     /\ (EmitOn => PrintT(ToJson([h |-> h, sb |-> Out(sb), fn |-> Out(fn), sf |-> Out(sf), rt |-> sb.rt,
                                   ds |-> d[1], dd |-> d[2], ok |-> d[3]])))
=============================================================================
