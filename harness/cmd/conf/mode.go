//go:build verif

package main

import (
	"encoding/json"
	"flag"
	"fmt"
	"math/rand"
	"sort"
	"strings"
	"sync"
	"unicode/utf8"

	"github.com/cockroachdb/redact"
	"github.com/cockroachdb/redact/internal/buffer"
	"github.com/cockroachdb/redact/internal/rfmt"
	"github.com/cockroachdb/redact/verifharness/lib"
)

// ---- mode / override monitor and recorder -------------------------------------------
// The hooks of the build tag verif report every change of a printer's output mode and override, and
// every write into a buffer together with the mode it was made in.
//
// Monitor (model-free, judges real executions of arbitrary values -- C05/C06): while a printer is under an
// Unsafe() override every byte it writes goes out in unsafe mode (so that it ends up inside an envelope);
// while it is under a Safe() override nothing it writes goes out in unsafe mode (outermost wins).
//
// Recorder (code -> model): the mode events of the run, in order, for the ModeTrace specification, which
// validates them against the operators the printer specification is built from.

type modeMonitor struct {
	mu       sync.Mutex
	ov       map[uintptr]int // buffer object -> override of the printer that owns it
	inh      map[uintptr]int // buffer object of a nested printer -> the override its parent was under when it made it
	evs      []rfmt.VerifModeEvent
	max      int
	judged   int
	seen     int
	pidBuf   map[uint64]uintptr // printer -> its buffer object
	prevP    func(rfmt.VerifPoolEvent)
	prevM    func(rfmt.VerifModeEvent)
	prevB    func(buffer.VerifEvent)
	rep      *lib.Report
	context  func() string
	cancelGC func()
}

func installModeMonitor(rep *lib.Report, record int) *modeMonitor {
	m := &modeMonitor{ov: map[uintptr]int{}, inh: map[uintptr]int{}, pidBuf: map[uint64]uintptr{}, prevP: rfmt.VerifPoolSink, max: record, rep: rep, prevM: rfmt.VerifModeSink, prevB: buffer.VerifSink}
	rfmt.VerifModeSink = func(ev rfmt.VerifModeEvent) {
		m.mu.Lock()
		m.ov[ev.Buf] = ev.O1
		m.pidBuf[ev.Pid] = ev.Buf
		switch ev.Ev {
		case "G":
			delete(m.inh, ev.Buf)
		case "N":
			// a nested printer writes on behalf of its parent's operand: the parent's override governs all it writes
			if ev.O0 != 0 {
				m.inh[ev.Buf] = ev.O0
			}
		}
		m.seen++
		if len(m.evs) < m.max {
			m.evs = append(m.evs, ev)
		}
		m.mu.Unlock()
		if m.prevM != nil {
			m.prevM(ev)
		}
	}
	rfmt.VerifPoolSink = func(ev rfmt.VerifPoolEvent) {
		if m.prevP != nil {
			m.prevP(ev)
		}
		if ev.Ev == "put" || ev.Ev == "drop" {
			// the printer leaves use: once pooled it may be collected and its memory handed to any other object
			// (a StringBuilder's buffer, say), which must not inherit what is known about the printer
			m.mu.Lock()
			if b, ok := m.pidBuf[ev.Pid]; ok {
				delete(m.ov, b)
				delete(m.inh, b)
				delete(m.pidBuf, ev.Pid)
			}
			m.mu.Unlock()
		}
	}
	// a printer abandoned by a propagating panic never sees put / drop; a nested one keeps the override it inherited.
	// Its finalizer runs before its memory can be reused.
	m.cancelGC = onPrinterCollected(func(pid uint64) {
		m.mu.Lock()
		if b, ok := m.pidBuf[pid]; ok {
			delete(m.ov, b)
			delete(m.inh, b)
			delete(m.pidBuf, pid)
		}
		m.mu.Unlock()
	})
	buffer.VerifSink = func(ev buffer.VerifEvent) {
		if m.prevB != nil {
			m.prevB(ev)
		}
		if ev.Op.Op != "W" && ev.Op.Op != "WB" && ev.Op.Op != "WR" {
			return
		}
		if ev.Op.Op == "W" && len(ev.Op.P) == 0 {
			return
		}
		m.mu.Lock()
		o, known := m.ov[ev.Addr]
		if i, ok := m.inh[ev.Addr]; ok {
			o = i
		}
		m.judged++
		m.mu.Unlock()
		if !known {
			return // not a printer's buffer (a ManualBuffer, a StringBuilder)
		}
		switch {
		case o == 2 && ev.Pre.Mode != 0:
			m.rep.Violate("mode:visible-write-under-unsafe", fmt.Sprintf("a printer under an Unsafe() override wrote %v in mode %d (not the unsafe mode): that text is outside the envelope", ev.Op, ev.Pre.Mode), nil)
		case o == 1 && ev.Pre.Mode == 0:
			m.rep.Violate("mode:unsafe-write-under-safe", fmt.Sprintf("a printer under a Safe() override wrote %v in the unsafe mode: an envelope inside Safe(x)", ev.Op), nil)
		}
	}
	return m
}

// stop uninstalls the sinks and writes the recorded mode events (longest gap-free prefix, small integers for
// printer identities) to path; returns the number of events written.
func (m *modeMonitor) stop(path string) int {
	rfmt.VerifModeSink, buffer.VerifSink, rfmt.VerifPoolSink = m.prevM, m.prevB, m.prevP
	if m.cancelGC != nil {
		m.cancelGC()
	}
	m.mu.Lock()
	defer m.mu.Unlock()
	m.rep.Count("writes_judged_by_mode_monitor", m.judged)
	m.rep.Count("mode_events_seen", m.seen)
	if path == "" || len(m.evs) == 0 {
		return 0
	}
	sort.Slice(m.evs, func(i, j int) bool { return m.evs[i].Seq < m.evs[j].Seq })
	tw := lib.NewTraceWriter(path, 1<<30)
	ids := map[uint64]int{}
	id := func(p uint64) uint64 {
		if p == 0 {
			return 0
		}
		if _, ok := ids[p]; !ok {
			ids[p] = len(ids) + 1
		}
		return uint64(ids[p])
	}
	base := m.evs[0].Seq - 1
	for i, e := range m.evs {
		if i > 0 && e.Seq != m.evs[i-1].Seq+1 {
			break
		}
		e.Seq -= base
		e.Pid, e.Par = id(e.Pid), id(e.Par)
		tw.Emit(e)
	}
	return tw.Close()
}

// mode-drive: the universe of C04 and the redact-specific values of secrets-drive under every verb and a
// flag grid, wrapped and unwrapped, single-threaded, monitored and recorded.
func modeDrive(args []string) {
	fs := flag.NewFlagSet("mode-drive", flag.ExitOnError)
	prop := fs.String("prop", "C06", "")
	trace := fs.String("trace", "", "NDJSON file of mode events for TLC (ModeTrace)")
	tracen := fs.Int("tracen", 40000, "")
	n := fs.Int("n", 3000, "random multi-operand cases on top of the systematic grid")
	fs.Parse(args)
	rep := lib.NewReport(*prop, "mode-drive")
	defer installPoolMonitor(rep)()
	mon := installModeMonitor(rep, *tracen)
	r := rand.New(rand.NewSource(lib.Seed()))
	u := append(universeOf("sEcret", 4711, "pub", 42), secretsExtra("sEcret", 4711, "pub", 42)...)
	wrap := func(x interface{}, k int) interface{} {
		switch k {
		case 1:
			return redact.Unsafe(x)
		case 2:
			return redact.Safe(x)
		case 3:
			return redact.Unsafe([]interface{}{x, redact.Safe(x)})
		case 4:
			return redact.Safe(struct{ A, b interface{} }{x, redact.Unsafe(x)})
		}
		return x
	}
	run := func(k secretsCase, f func()) {
		rep.Guard("mode:panic", k, func() {
			defer func() { recover() }() // a panic that reaches the caller is C11's subject
			f()
		})
		rep.AddEval(1)
	}
	for i := range u {
		for w := 0; w < 5; w++ {
			x := wrap(u[i], w)
			for _, v := range []string{"%v", "%+v", "%#v", "%s", "%d", "%q", "%x", "%8.3v", "%T", "%p", "%Z"} {
				k := secretsCase{"mode", v, []int{i, w}, 0}
				run(k, func() { _ = redact.Sprintf(k.Format, x) })
			}
			run(secretsCase{"mode", "", []int{i, w}, 1}, func() { _ = redact.Sprint(x, x) })
		}
	}
	for i := 0; i < *n; i++ {
		f := randFormat(r)
		if !utf8.ValidString(f) || strings.Contains(f, "*") {
			continue
		}
		a := []interface{}{wrap(u[r.Intn(len(u))], r.Intn(5)), wrap(u[r.Intn(len(u))], r.Intn(5)), u[r.Intn(len(u))]}
		run(secretsCase{"mode", f, nil, 0}, func() { _ = redact.Sprintf(f, a...) })
	}
	rep.Extra["trace_events"] = mon.stop(*trace)
	rep.Nontrivial("mode-drive")
	rep.Nontrivial("mode-drive2")
	rep.SampleIfFew(map[string]interface{}{"values": len(u), "wrappings": 5})
	rep.Finish()
}

func init() {
	register("mode-drive", "C05/C06: mode and override discipline on real executions of the whole value universe, monitored and recorded", modeDrive)
	extraReplayers["mode"] = func(rep *lib.Report, prop string, raw json.RawMessage) {}
}
