//go:build verif

package main

import (
	"bytes"
	"crypto/sha1"
	"encoding/json"
	"flag"
	"fmt"
	"math/rand"
	"os"
	"os/exec"
	"reflect"
	"runtime"
	"sort"
	"strings"
	"sync"
	"time"

	"github.com/cockroachdb/redact"
	"github.com/cockroachdb/redact/internal/rfmt"
	"github.com/cockroachdb/redact/verifharness/lib"
)

// ---- value classes used by prior calls and probes ----------------------------

type poolStringer struct{ s string }

func (p poolStringer) String() string { return p.s }

type poolPanicker struct{ payload interface{} }

func (p poolPanicker) String() string { panic(p.payload) }

type poolNested struct{ args []interface{} }

func (p poolNested) SafeFormat(w redact.SafePrinter, _ rune) {
	w.SafeString("n[")
	w.Print(p.args...)
	w.Printf("%d|%v", 7, redact.Safe("s"))
	w.SafeString("]")
}

type poolNestedPanic struct{}

func (poolNestedPanic) SafeFormat(w redact.SafePrinter, _ rune) {
	w.UnsafeString("before")
	w.Print(poolPanicker{"inner"}, poolPanicker{poolPanicker{"deep"}})
}

// widthProbe reports Width/Precision/flags only as far as fmt.State defines them.
type widthProbe struct{}

func (widthProbe) Format(s fmt.State, verb rune) {
	out := "wp:" + string(verb)
	if w, ok := s.Width(); ok {
		out += fmt.Sprintf(":w%d", w)
	}
	if p, ok := s.Precision(); ok {
		out += fmt.Sprintf(":p%d", p)
	}
	for _, c := range "+-# 0" {
		if s.Flag(int(c)) {
			out += string(c)
		}
	}
	s.Write([]byte(out))
}

type poolValErr struct{ m string }

func (e poolValErr) Error() string { return e.m }

type poolErr struct{ m string }

func (e *poolErr) Error() string { return e.m }

var theErr = &poolErr{"wrapped-err"}

type poolChainErr struct {
	m     string
	cause error
}

func (e *poolChainErr) Error() string { return e.m + ": " + e.cause.Error() }
func (e *poolChainErr) Unwrap() error { return e.cause }

// installPoolHook registers (for the life of the process) an error hook in the style of cockroachdb/errors:
// it prints a safe prefix, the error text as unsafe, and the cause through the printer it was given.  It yields
// in the middle, so that under -g N other goroutines print errors while one of them is inside the hook.
func installPoolHook() {
	redact.RegisterRedactErrorFn(func(err error, p redact.SafePrinter, verb rune) {
		p.SafeString("hooked:")
		if _, isPtr := err.(*poolValErr); isPtr {
			p.SafeString("(*poolValErr!)") // poolValErr has a value receiver: the hook is handed the error itself, never its address
		}
		runtime.Gosched()
		time.Sleep(20 * time.Microsecond)
		if c, ok := err.(*poolChainErr); ok {
			p.UnsafeString(c.m)
			p.SafeString(" <- ")
			p.Print(c.cause)
			return
		}
		p.UnsafeString(err.Error())
	})
}

// hookFlag: -hook on a pool command (and VERIF_POOL_HOOK in the environment of the fresh process it asks for the
// expected values) runs the whole experiment with the error hook registered.
func hookFlag(on bool) {
	if on {
		os.Setenv("VERIF_POOL_HOOK", "1")
	}
	if os.Getenv("VERIF_POOL_HOOK") != "" {
		installPoolHook()
	}
}

var bigString = strings.Repeat("0123456789abcdef", 5000) // 80 KB > the 64 KiB pool limit

// a call kind: executed for its side effects on the process (as a prior call) and for its result (as a probe)
type poolCall struct {
	name string
	fn   func() string
}

// absoluteFailure: a call kind that checks something about its own results says so in its result
// reentrantWriter prints through the library from inside Write and checks that the bytes it was given stay what they were.
type reentrantWriter struct {
	got     string
	mutated string
}

func (w *reentrantWriter) Write(p []byte) (int, error) {
	before := string(p)
	for i := 0; i < 3; i++ {
		_ = redact.Sprintf("%s %d", strings.Repeat("Z", len(p)+i), i)
	}
	if string(p) != before && w.mutated == "" {
		w.mutated = fmt.Sprintf("the bytes handed to Write changed from %q to %q while the destination printed something itself", before, string(p))
	}
	w.got += before
	return len(p), nil
}

func absoluteFailure(got string) bool { return strings.Contains(got, "RESULT-MUTATED") }

func guardCall(fn func() string) (out string) {
	defer func() {
		if r := recover(); r != nil {
			out = fmt.Sprintf("PANIC(%v)", r)
		}
	}()
	return fn()
}

func digest(s string) string {
	if len(s) > 200 {
		h := sha1.Sum([]byte(s))
		return fmt.Sprintf("len=%d sha1=%x", len(s), h[:8])
	}
	return s
}

var poolCalls = []poolCall{
	{"plain", func() string { return string(redact.Sprintf("a %v b %d c %s", "x", 12, poolStringer{"st"})) }},
	{"sprint", func() string { return string(redact.Sprint("u", 1, 2.5, nil, []interface{}{"e", 3})) }},
	{"override", func() string {
		return string(redact.Sprintf("%v|%v|%v", redact.Safe("s1"), redact.Unsafe(redact.Safe("s2")), redact.Safe(redact.Unsafe(5))))
	}},
	{"badverb", func() string { return string(redact.Sprintf("%d %!x %z", "str", 4, struct{ A int }{1})) }},
	{"widthprec", func() string { return string(redact.Sprintf("%+-12.3v|%#08.2f|%*d", widthProbe{}, 3.14159, 6, 42)) }},
	{"errorf-ok", func() string {
		s, err := redact.HelperForErrorf("e: %w / %v", theErr, "x")
		return fmt.Sprintf("%s err=%v", s, err == error(theErr))
	}},
	{"errorf-misuse", func() string {
		s, err := redact.HelperForErrorf("e: %w %w", theErr, poolStringer{"nope"})
		return fmt.Sprintf("%s err=%v", s, err)
	}},
	{"errorf-none", func() string {
		s, err := redact.HelperForErrorf("plain %v", theErr)
		return fmt.Sprintf("%s err=%v", s, err)
	}},
	{"w-outside", func() string { return string(redact.Sprintf("%w", theErr)) }},
	{"panic-contained", func() string {
		return string(redact.Sprintf("p=%v q=%d", poolPanicker{"boom"}, poolPanicker{poolValErr{"e"}}))
	}},
	{"panic-propagates", func() string { return string(redact.Sprintf("p=%v", poolPanicker{poolPanicker{"inner"}})) }},
	{"big", func() string { return digest(string(redact.Sprintf("%s|%v", bigString, redact.Safe(bigString)))) }},
	{"nested", func() string { return string(redact.Sprint(poolNested{[]interface{}{"a", redact.Safe("b"), 3}})) }},
	{"nested-unsafe", func() string { return string(redact.Sprintf("%v", redact.Unsafe(poolNested{[]interface{}{"a"}}))) }},
	{"nested-panic", func() string { return string(redact.Sprintf("x %v y", poolNestedPanic{})) }},
	{"sprintfn", func() string {
		return string(redact.Sprintfn(func(w redact.SafePrinter) { w.SafeString("s"); w.UnsafeString("u\nv"); w.Print(1, "t") }))
	}},
	{"sprintfn-panic", func() string {
		return string(redact.Sprintfn(func(w redact.SafePrinter) { w.UnsafeString("partial"); panic("in callback") }))
	}},
	{"fprint", func() string {
		var b bytes.Buffer
		n, err := redact.Fprintf(&b, "%v-%v", "f", redact.Safe(9))
		return fmt.Sprintf("%s n=%d err=%v", b.String(), n, err)
	}},
	// a destination that prints on its own account while it is being written to (a logger whose sink logs): the bytes
	// handed to Write are the caller's until Write returns -- they must not change under the destination's feet
	{"fprint-reentrant", func() string {
		w := &reentrantWriter{}
		n, err := redact.Fprintf(w, "%s|%v|%d", "first-operand", redact.Safe("s"), 12345)
		n2, err2 := redact.Fprint(w, "second", 7, []interface{}{"x", 2})
		if w.mutated != "" {
			return "RESULT-MUTATED: " + w.mutated
		}
		return fmt.Sprintf("%s n=%d,%d err=%v,%v", w.got, n, n2, err, err2)
	}},
	{"builder", func() string {
		var sb redact.StringBuilder
		sb.SafeString("s")
		sb.Printf("%05d", 42)
		sb.UnsafeString("u")
		sb.Print(redact.Safe("p"), "q")
		return string(sb.RedactableString())
	}},
	{"probe-default", func() string { return string(redact.Sprintf("%v|%v|%d", widthProbe{}, theErr, 3)) }},
	{"negprec", func() string { return string(redact.Sprintf("%*.*f|%-*d|%.*d", -3, -2, 1.5, -7, 6, -1000, 5)) }},
	{"wide", func() string { return digest(string(redact.Sprintf("%0120d|%0100x|%+090d|%.100d", 7, -3, -5, 9))) }},
	{"scribble", func() string {
		// a caller may do what it likes with the slices the API hands out
		var sb strings.Builder
		for _, m := range [][]byte{redact.StartMarker(), redact.EndMarker(), redact.RedactedMarker(), redact.EscapeMarkers([]byte("a‹b")), []byte(redact.EscapeBytes([]byte("x\ny")))} {
			sb.Write(m)
			for i := range m {
				m[i] = 'X'
			}
		}
		return sb.String()
	}},
	{"err-chain", func() string {
		vals := []poolValErr{{"t1"}, {"t2"}} // a statically typed slice: its elements are addressable
		return string(redact.Sprintf("%v|%+v|%v|%v", &poolChainErr{"outer", theErr}, []error{theErr, poolValErr{"v"}}, vals, &struct{ E poolValErr }{poolValErr{"f"}}))
	}},
	// byte arrays passed by value (not addressable): two kinds with different contents, so that any scratch space shared
	// between calls shows when goroutines run them side by side
	{"bytearray-a", func() string {
		return string(redact.Sprintf("%x|%s|%q|%X", [8]byte{1, 2, 3, 4, 5, 6, 7, 8}, [5]byte{'h', 'e', 'l', 'l', 'o'}, [3]byte{'a', 'b', 'c'}, [32]byte{0xAA, 0xAB, 31: 0xAF}))
	}},
	{"bytearray-b", func() string {
		return string(redact.Sprintf("%x|%s|%q|%X", [8]byte{9, 9, 9, 9, 9, 9, 9, 9}, [5]byte{'w', 'o', 'r', 'l', 'd'}, [3]byte{'x', 'y', 'z'}, [32]byte{0x11, 0x12, 31: 0x1F}))
	}},
	// a long pre-redacted operand with spare capacity, printed twice with different tails: the first result must still
	// be what it was after the second call (nothing may keep writing into the caller's slice or into a returned string)
	{"rbytes-long", func() string {
		rb := make([]byte, 0, 256)
		rb = append(rb, []byte("‹"+strings.Repeat("r", 70)+"› safe-part ")...)
		a := redact.Sprint(redact.RedactableBytes(rb), "tail-one")
		acopy := string(append([]byte(nil), a...))
		b := redact.Sprint(redact.RedactableBytes(rb), "TAIL-TWO-LONGER")
		if string(a) != acopy {
			// absolute: the expected values come from a fresh process of the same build, so a defect that shows in
			// every process must be named by the call itself
			return fmt.Sprintf("RESULT-MUTATED: the string returned by the first call changed from %q to %q when the second call ran", acopy, a)
		}
		return fmt.Sprintf("%s|%s|%d", a, b, len(rb))
	}},
	{"safenil-field", func() string {
		type ev struct {
			N int
			V interface{}
			W interface{}
		}
		return string(redact.Sprintf("event %v|%+v", ev{3, redact.Safe(nil), redact.Unsafe(nil)}, &ev{4, redact.Unsafe(nil), redact.Safe(nil)}))
	}},
	{"markers", func() string { return string(redact.Sprintf("%s %v", "a‹b›\n", []byte("x›"))) }},
	// pre-redacted operands as a caller can hand them over (not only well-formed ones), next to empty operands: calls
	// that end with the buffer in its rarest states (nothing written but an envelope open, a lone marker taken back, ...)
	// (one call per kind: the state a call leaves behind is seen by the NEXT call, which must be another kind's)
	{"odd-close-empty", func() string { return string(redact.Sprint(redact.RedactableString("›"), "")) }},
	{"odd-open-empty", func() string { return string(redact.Sprintf("%s%s", redact.RedactableBytes("‹"), "")) }},
	{"odd-open-int", func() string { return string(redact.Sprint(redact.RedactableString("a‹"), 1)) }},
	{"odd-envelope-empty", func() string { return string(redact.Sprintf("%v%v", redact.RedactableString("‹x›"), "")) }},
	{"odd-empty", func() string { return string(redact.Sprintf("%s", "")) }},
	// directives without a width right after calls that had one: precision 0 on the value 0 prints nothing but padding
	{"zero-prec", func() string { return string(redact.Sprintf("[%.0d|%.0x|%.0o|%.d]", 0, 0, 0, 0)) }},
	// explicit argument indexes, then a format without any directive and with surplus operands
	{"reorder", func() string { return string(redact.Sprintf("%[2]d %[1]d|%[3]*.[2]*[1]f", 1, 2, 8)) }},
	{"extra-plain", func() string { return string(redact.Sprintf("shutting down", 42, "x")) }},
	{"widths", func() string { return string(redact.Sprintf("%8d|%-12s|%*d|%012.3f", 1, "s", 9, 2, 3.5)) }},
}

// ---- pool events ---------------------------------------------------------------

type poolRecorder struct {
	mu  sync.Mutex
	evs []rfmt.VerifPoolEvent
	max int
}

func (r *poolRecorder) install() {
	rfmt.VerifPoolSink = func(ev rfmt.VerifPoolEvent) {
		r.mu.Lock()
		if len(r.evs) < r.max {
			r.evs = append(r.evs, ev)
		}
		r.mu.Unlock()
	}
}

// write stores the events in sequence order; the recorded prefix must be gap-free
// (seq = position) for the trace specification.
func (r *poolRecorder) write(path string) (n int, recycled int) {
	rfmt.VerifPoolSink = nil
	r.mu.Lock()
	defer r.mu.Unlock()
	sort.Slice(r.evs, func(i, j int) bool { return r.evs[i].Seq < r.evs[j].Seq })
	// keep the longest prefix without gaps, renumbered from the first recorded seq
	var out []rfmt.VerifPoolEvent
	for i, e := range r.evs {
		if i > 0 && e.Seq != r.evs[i-1].Seq+1 {
			break
		}
		out = append(out, e)
	}
	if len(out) == 0 {
		return 0, 0
	}
	base := out[0].Seq - 1
	put := map[uint64]bool{}
	ids := map[uint64]int{}
	arrs := map[uint64]int{}
	tw := lib.NewTraceWriter(path, 1<<30)
	for _, e := range out {
		e.Seq -= base
		if e.Ev == "get" && put[e.Pid] {
			recycled++
		}
		if e.Ev == "put" {
			put[e.Pid] = true
		}
		// small integers instead of addresses
		if _, ok := ids[e.Pid]; !ok {
			ids[e.Pid] = len(ids) + 1
		}
		e.Pid = uint64(ids[e.Pid])
		if e.BufArr != 0 {
			if _, ok := arrs[e.BufArr]; !ok {
				arrs[e.BufArr] = len(arrs) + 1
			}
			e.BufArr = uint64(arrs[e.BufArr])
		}
		tw.Emit(e)
	}
	return tw.Close(), recycled
}

// ---- expected values from a fresh process ----------------------------------------

func poolExpected(args []string) {
	hookFlag(false)
	m := map[string]string{}
	for _, c := range poolCalls {
		m[c.name] = guardCall(c.fn)
	}
	b, _ := json.Marshal(m)
	fmt.Println(string(b))
}

func freshExpected() map[string]string { return freshExpectedEnv(os.Getenv("VERIF_POOL_HOOK") != "") }

// freshExpectedEnv: the results of every call kind in a fresh process, with or without the error hook registered there.
func freshExpectedEnv(hook bool) map[string]string {
	cmd := exec.Command(os.Args[0], "pool-expected")
	cmd.Env = append(os.Environ(), "VERIF_POOL_HOOK=")
	if hook {
		cmd.Env = append(os.Environ(), "VERIF_POOL_HOOK=1")
	}
	out, err := cmd.Output()
	if err != nil {
		panic("cannot obtain the expected values from a fresh process: " + err.Error())
	}
	m := map[string]string{}
	if err := json.Unmarshal(bytes.TrimSpace(out), &m); err != nil {
		panic(err)
	}
	return m
}

type poolCase struct {
	Kind    string   `json:"kind"`
	History []string `json:"history"`
	Probe   string   `json:"probe"`
}

// two call kinds of one name would make the fresh-process expectation of one stand for the other: a mistake in the
// table must never turn into a verdict about redact
func init() {
	seen := map[string]bool{}
	for _, c := range poolCalls {
		if seen[c.name] {
			fmt.Fprintf(os.Stderr, "HARNESS-CONFIG-ERROR: two pool call kinds are named %q\n", c.name)
			os.Exit(3)
		}
		seen[c.name] = true
	}
}

func callByName(name string) poolCall {
	for _, c := range poolCalls {
		if c.name == name {
			return c
		}
	}
	panic("unknown call kind " + name)
}

// runHistory executes the prior calls, then every probe, comparing with the fresh-process values.
func runHistory(rep *lib.Report, expected map[string]string, hist []string) {
	for _, h := range hist {
		guardCall(callByName(h).fn)
	}
	for _, c := range poolCalls {
		got := guardCall(c.fn)
		rep.AddEval(1)
		if got != expected[c.name] || absoluteFailure(got) {
			rep.Violate("pool:history:"+c.name, fmt.Sprintf("after %v the call %s returns %q, a fresh process %q", hist, c.name, digest(got), digest(expected[c.name])),
				poolCase{"pool-history", hist, c.name})
		}
	}
}

// pool-history: single OS thread of Go code (GOMAXPROCS=1) so that the pool hands the same printer back.
func poolHistory(args []string) {
	fs := flag.NewFlagSet("pool-history", flag.ExitOnError)
	file := fs.String("hist", "", "JSON array of histories (arrays of call-kind names) derived from TLC behaviours")
	depth := fs.Int("depth", 2, "additionally: every sequence of call kinds up to this length")
	trace := fs.String("trace", "", "")
	hook := fs.Bool("hook", false, "run with an error hook registered")
	prop := fs.String("prop", "C12", "")
	fs.Parse(args)
	hookFlag(*hook)
	expected := freshExpected()
	runtime.GOMAXPROCS(1)
	rep := lib.NewReport(*prop, "pool-history")
	rec := &poolRecorder{max: 200000}
	rec.install()
	var hists [][]string
	if *file != "" {
		raw, err := os.ReadFile(*file)
		if err != nil {
			panic(err)
		}
		if err := json.Unmarshal(raw, &hists); err != nil {
			panic(err)
		}
		rep.Extra["tlc_behaviours"] = len(hists)
		rep.AddReplayed(int64(len(hists)))
	}
	var gen func(prefix []string, d int)
	gen = func(prefix []string, d int) {
		if len(prefix) > 0 {
			hists = append(hists, append([]string(nil), prefix...))
		}
		if d == 0 {
			return
		}
		for _, c := range poolCalls {
			gen(append(prefix, c.name), d-1)
		}
	}
	gen(nil, *depth)
	// every (prior call, probe) pair with nothing in between: a probe must not be shielded by the probes
	// that happen to run before it
	for _, a := range poolCalls {
		for _, b := range poolCalls {
			ra := guardCall(a.fn)
			copyA := string(append([]byte(nil), ra...))
			got := guardCall(b.fn)
			rep.AddEval(1)
			if ra != copyA {
				rep.Violate("pool:history:result-mutated", fmt.Sprintf("the string returned by %s changed when %s ran afterwards: %q -> %q", a.name, b.name, digest(copyA), digest(ra)),
					poolCase{"pool-history", []string{a.name}, b.name})
			}
			if got != expected[b.name] || absoluteFailure(got) {
				rep.Violate("pool:history:"+b.name, fmt.Sprintf("right after %s the call %s returns %q, a fresh process %q", a.name, b.name, digest(got), digest(expected[b.name])),
					poolCase{"pool-history", []string{a.name}, b.name})
			}
		}
	}
	if *hook {
		// the hook renders every error it is handed, also the ones it prints itself through the printer it was given
		if got, want := guardCall(callByName("err-chain").fn), "hooked:‹outer› <- hooked:‹wrapped-err›|[hooked:‹wrapped-err› hooked:‹v›]|[hooked:‹t1› hooked:‹t2›]|&{hooked:‹f›}"; got != want {
			rep.Violate("pool:history:hook-chain", fmt.Sprintf("with the hook registered, an error chain and a slice of errors print %q, the hook alone renders them as %q", got, want), poolCase{"pool-history", nil, "err-chain"})
		}
		// registration is itself an earlier call: a hook registered (or removed) after printers have been used and
		// pooled applies to the very next call, whichever printer serves it
		expHook, expNo := expected, freshExpectedEnv(false)
		toggle := func(on bool, a, b poolCall, exp map[string]string) {
			guardCall(a.fn)
			if on {
				installPoolHook()
			} else {
				redact.RegisterRedactErrorFn(nil)
			}
			got := guardCall(b.fn)
			rep.AddEval(1)
			if got != exp[b.name] {
				rep.Violate("pool:history:hook-toggle:"+b.name, fmt.Sprintf("%s, then the hook is %s, then %s returns %q; a fresh process in that hook state %q",
					a.name, map[bool]string{true: "registered", false: "removed"}[on], b.name, digest(got), digest(exp[b.name])),
					poolCase{"pool-history", []string{a.name}, b.name})
			}
		}
		for _, a := range poolCalls {
			for _, b := range poolCalls {
				toggle(false, a, b, expNo)
				toggle(true, a, b, expHook)
			}
		}
		rep.Nontrivial("hook-toggle")
	}
	for i, h := range hists {
		runHistory(rep, expected, h)
		rep.Nontrivial(strings.Join(h, ","))
		if i%97 == 0 {
			rep.Sample(map[string]interface{}{"history": h, "probes": len(poolCalls)})
		}
	}
	n, recycled := rec.write(*trace)
	rep.Extra["pool_events"] = n
	rep.Extra["gets_of_recycled_printers"] = recycled
	if recycled == 0 {
		rep.Extra["warning"] = "no printer was ever recycled: the histories did not exercise the pool"
	}
	rep.Finish()
}

// pool-stress: goroutines issuing random calls concurrently; every result is compared with the fresh-process
// value; pool events are recorded for PoolTrace.  Built with -race by /verif/check for the race clause.
func poolStress(args []string) {
	fs := flag.NewFlagSet("pool-stress", flag.ExitOnError)
	g := fs.Int("g", 16, "goroutines")
	secs := fs.Float64("secs", 2, "")
	trace := fs.String("trace", "", "")
	maxev := fs.Int("maxev", 40000, "")
	hook := fs.Bool("hook", false, "run with an error hook registered (it yields inside)")
	fs.Parse(args)
	hookFlag(*hook)
	expected := freshExpected()
	rep := lib.NewReport("C12", "pool-stress")
	rec := &poolRecorder{max: *maxev}
	rec.install()
	deadline := time.Now().Add(time.Duration(*secs * float64(time.Second)))
	var wg sync.WaitGroup
	for i := 0; i < *g; i++ {
		wg.Add(1)
		go func(i int) {
			defer wg.Done()
			r := rand.New(rand.NewSource(lib.Seed()*131 + int64(i)))
			var hist []string
			for time.Now().Before(deadline) {
				c := poolCalls[r.Intn(len(poolCalls))]
				got := guardCall(c.fn)
				rep.AddEval(1)
				if got != expected[c.name] || absoluteFailure(got) {
					rep.Violate("pool:stress:"+c.name, fmt.Sprintf("goroutine %d: %s returned %q, a fresh process %q (own recent calls %v)", i, c.name, digest(got), digest(expected[c.name]), hist),
						poolCase{"pool-history", append([]string(nil), hist...), c.name})
				}
				hist = append(hist, c.name)
				if len(hist) > 6 {
					hist = hist[1:]
				}
				if r.Intn(8) == 0 {
					// a struct TYPE nobody has printed before (whatever is remembered per type is filled in right now,
					// on every goroutine at once): field names and values must come out as they are
					name := fmt.Sprintf("F%dx%d", i, r.Intn(1<<30))
					st := reflect.StructOf([]reflect.StructField{{Name: name, Type: reflect.TypeOf(0)}, {Name: "S" + name, Type: reflect.TypeOf("")}})
					v := reflect.New(st).Elem()
					v.Field(0).SetInt(7)
					v.Field(1).SetString("u")
					want := "{" + name + ":‹7› S" + name + ":‹u›}"
					if got := guardCall(func() string { return string(redact.Sprintf("%+v", v.Interface())) }); got != want {
						rep.Violate("pool:stress:fresh-struct-type", fmt.Sprintf("goroutine %d: %%+v of a new struct type printed %q, expected %q", i, got, want), poolCase{"pool-history", nil, "fresh-struct-type"})
					}
				}
				if r.Intn(50) == 0 {
					runtime.Gosched()
				}
			}
		}(i)
	}
	wg.Wait()
	n, recycled := rec.write(*trace)
	rep.Extra["pool_events"] = n
	rep.Extra["gets_of_recycled_printers"] = recycled
	rep.Extra["goroutines"] = *g
	rep.Extra["error_hook"] = *hook
	rep.Nontrivial("stress")
	rep.Nontrivial("stress2")
	rep.Sample(map[string]interface{}{"goroutines": *g, "seconds": *secs, "call_kinds": len(poolCalls)})
	rep.Finish()
}

func init() {
	register("pool-expected", "C12: print the result of every call kind in this (fresh) process", poolExpected)
	register("pool-history", "C12: prior-call histories followed by probes, single-threaded", poolHistory)
	register("pool-stress", "C12: concurrent random calls with pool event recording", poolStress)
	extraReplayers["pool-history"] = func(rep *lib.Report, prop string, raw json.RawMessage) {
		var k poolCase
		_ = json.Unmarshal(raw, &k)
		expected := freshExpected()
		runtime.GOMAXPROCS(1)
		for _, h := range k.History {
			guardCall(callByName(h).fn)
		}
		got := guardCall(callByName(k.Probe).fn)
		if got != expected[k.Probe] {
			rep.Violate("pool:history:"+k.Probe, fmt.Sprintf("after %v the call %s returns %q, a fresh process %q", k.History, k.Probe, digest(got), digest(expected[k.Probe])), k)
		}
	}
}

// ---- pool discipline monitor -----------------------------------------------------
// Every stage that drives the printing API watches the printer pool while it runs: a printer is handed out
// only while it is not in use, and handed back (or dropped) exactly once per use.  A printer released twice is
// later handed to two users at once; what breaks then (wrong text from a nested Print, a fatal runtime
// error) depends on chance, so the cause is reported where it happens.  (Pool!Get/Put preconditions; the
// PoolTrace specification checks the same on the recorded histories of C12.)
func installPoolMonitor(rep *lib.Report) (stop func()) {
	var mu sync.Mutex
	live := map[uint64]bool{}
	prev := rfmt.VerifPoolSink
	rfmt.VerifPoolSink = func(ev rfmt.VerifPoolEvent) {
		if prev != nil {
			prev(ev)
		}
		mu.Lock()
		defer mu.Unlock()
		switch ev.Ev {
		case "get":
			if live[ev.Pid] {
				rep.Violate("pool:printer-handed-out-twice", fmt.Sprintf("printer %d was handed out while it was still in use", ev.Pid), nil)
			}
			live[ev.Pid] = true
		case "put", "drop":
			if !live[ev.Pid] {
				// (said on stderr at once as well: the process may not live to print its summary)
				fmt.Fprintf(os.Stderr, "CODE-UNDER-TEST-FAULT printer %d released twice (%s)\n", ev.Pid, ev.Ev)
				rep.Violate("pool:printer-released-twice", fmt.Sprintf("printer %d was released (%s) although it was not in use: a printer handed back twice is later given to two users at once", ev.Pid, ev.Ev), nil)
			}
			delete(live, ev.Pid)
		}
	}
	// an abandoned printer (a panic propagated through its call) is collected without put / drop
	cancel := onPrinterCollected(func(pid uint64) {
		mu.Lock()
		delete(live, pid)
		mu.Unlock()
	})
	return func() { rfmt.VerifPoolSink = prev; cancel() }
}
