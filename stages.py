"""Stage tables: which specification runs and which conformance runs decide
each property, per tier.  See DESIGN.md section 6."""


def tier(ctx, quick, thorough):
    return quick if ctx.tier == "quick" else thorough


# ---------------------------------------------------------------------------
# shared stages

def buffer_model(ctx):
    """MCBuffer: exhaustive buffer state machine, every transition replayed"""
    consts = tier(ctx,
                  dict(MaxOps=3, MaxPay=2, Alpha="A6", ByteArgs="QByteArgs", RuneArgs="QRuneArgs", RawFrags="QRawFrags"),
                  dict(MaxOps=4, MaxPay=2, Alpha="A6", ByteArgs="TByteArgs", RuneArgs="TRuneArgs", RawFrags="TRawFrags"))
    ctx.tlc_replay("MCBuffer", "Buffer.cfg", ["buffer-replay", "-prop", ctx.prop], consts=consts)


BUFFER_RULE = ("TLC enumerates every sequence of Write/WriteByte/WriteRune/SetMode/Reset/Take up to MaxOps operations "
               "with every payload over the 6-byte alphabet {E2,80,B9,BA,'a',LF} up to MaxPay bytes (raw-mode writes: "
               "well-formed fragments); each explored transition is replayed on the real Buffer in 4 variants "
               "(Write/WriteString, Take variants, accessors inserted after every call); distinct = distinct hidden "
               "states (buf, validUntil, mode, markerOpen) reached on the real object")


def c01(ctx):
    buffer_model(ctx)


def c03(ctx):
    buffer_model(ctx)


def c09(ctx):
    buffer_model(ctx)


def c13(ctx):
    buffer_model(ctx)


PROPS = {
    "C01": dict(run=c01, rule=BUFFER_RULE, exhaustive=True, assumptions=[
        "raw (PreRedactable) writes are well-formed fragments, the mode's documented precondition"]),
    "C03": dict(run=c03, rule=BUFFER_RULE, exhaustive=True, assumptions=[
        "raw (PreRedactable) writes are well-formed, line-safe fragments"]),
    "C09": dict(run=c09, rule=BUFFER_RULE, exhaustive=True, assumptions=[
        "the two equalities are claimed for valid UTF-8 payloads and valid runes only (property text)"]),
    "C13": dict(run=c13, rule=BUFFER_RULE, exhaustive=True, assumptions=[
        "Cap() and the aliasing RedactableBytes slice are outside the claim (property text speaks of strings)"]),
}
