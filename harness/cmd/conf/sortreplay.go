package main

import (
	"encoding/json"
	"flag"
	"fmt"
	"math"
	"os"
	"reflect"
	"regexp"
	"runtime"
	"strings"

	"github.com/cockroachdb/redact"
	"github.com/cockroachdb/redact/verifharness/lib"
)

// sort-replay: the key sets enumerated by MCSort (specification FmtSort: the order in which map entries are
// printed).  Each set becomes a real map whose (safe) values name the position the model gives their key;
// the printed order must be that order (drift otherwise), must equal fmt's (C04), must not depend on Go's
// randomised iteration, and -- C02 -- must be the same for two instantiations of the unsafe keys that have the
// same relative order (ranks mapped to the extremes of the kind's range / to small numbers).

type sortKey struct {
	K   string    `json:"k"`
	N   int       `json:"n"`
	B   lib.B     `json:"b"`
	NaN bool      `json:"nan"`
	Xs  []sortKey `json:"xs"`
}

type sortLine struct {
	Kind    string    `json:"kind"`
	Sorted  []sortKey `json:"sorted"`
	NaNFree bool      `json:"nanfree"`
}

type srtStruct struct {
	A int64
	B string
}

var (
	rankI64 = [2][7]int64{{math.MinInt64, math.MinInt64 + 3, -2, 0, 1, math.MaxInt64 - 1, math.MaxInt64}, {-30, -20, -10, 0, 10, 20, 30}}
	rankU64 = [2][7]uint64{{0, 1, 1 << 31, 1 << 32, 1 << 63, math.MaxUint64 - 1, math.MaxUint64}, {1, 2, 3, 4, 5, 6, 7}}
	rankF64 = [2][7]float64{{math.Inf(-1), -math.MaxFloat64, -1e-300, 0, 5e-324, math.MaxFloat64, math.Inf(1)}, {-3, -2, -1, 0, 1, 2, 3}}
)

func sortFloat(k sortKey, inst int) float64 {
	if k.NaN {
		return math.NaN()
	}
	return rankF64[inst][k.N]
}

// sortKeyValue: the Go key for a term in instantiation inst (0: extremes of the range, 1: tame)
func sortKeyValue(k sortKey, inst int) reflect.Value {
	switch k.K {
	case "int":
		return reflect.ValueOf(rankI64[inst][k.N])
	case "uint":
		return reflect.ValueOf(rankU64[inst][k.N])
	case "bool":
		return reflect.ValueOf(k.N == 1)
	case "str":
		return reflect.ValueOf(string(k.B))
	case "float":
		return reflect.ValueOf(sortFloat(k, inst))
	case "complex":
		return reflect.ValueOf(complex(sortFloat(k.Xs[0], inst), sortFloat(k.Xs[1], inst)))
	case "struct":
		return reflect.ValueOf(srtStruct{rankI64[inst][k.Xs[0].N], string(k.Xs[1].B)})
	case "array":
		return reflect.ValueOf([2]int64{rankI64[inst][k.Xs[0].N], rankI64[inst][k.Xs[1].N]})
	case "iface":
		var x interface{}
		if len(k.Xs) == 1 {
			x = rankI64[inst][k.Xs[0].N]
		}
		return reflect.ValueOf(&x).Elem()
	}
	panic("sort key kind " + k.K)
}

var sortValRe = regexp.MustCompile(`:v(\d)`)

func judgeSort(rep *lib.Report, prop string, ln sortLine, haveModel bool) {
	is := func(p string) bool { return prop == p || prop == "ALL" }
	var outs [2][]string
	var stdOrder string
	for inst := 0; inst < 2; inst++ {
		kt := sortKeyValue(ln.Sorted[0], inst).Type()
		m := reflect.MakeMap(reflect.MapOf(kt, reflect.TypeOf(redact.SafeString(""))))
		for i, k := range ln.Sorted {
			m.SetMapIndex(sortKeyValue(k, inst), reflect.ValueOf(redact.SafeString(fmt.Sprintf("v%d", i))))
		}
		if m.Len() != len(ln.Sorted) {
			return // (cannot happen for distinct keys; NaN keys are always distinct)
		}
		mv := m.Interface()
		for rpt := 0; rpt < 3; rpt++ {
			outs[inst] = append(outs[inst], string(redact.Sprintf("%v", mv).Redact()), string(redact.Sprint(struct{ M interface{} }{mv}).Redact()))
		}
		if inst == 0 {
			stdOrder = strings.Join(flatten(sortValRe.FindAllStringSubmatch(fmt.Sprint(mv), -1)), "")
		}
		rep.AddEval(6)
	}
	desc := fmt.Sprintf("map with %d %s keys (model order %s)", len(ln.Sorted), ln.Kind, keysString(ln.Sorted))
	order := strings.Join(flatten(sortValRe.FindAllStringSubmatch(outs[0][0], -1)), "")
	want := ""
	for i := range ln.Sorted {
		want += fmt.Sprint(i)
	}
	if haveModel && order != want {
		rep.DriftAt(fmt.Sprintf("%s: printed in the order %s, the specification says %s: %q", desc, order, want, outs[0][0]))
	}
	if is("C04") && order != stdOrder {
		rep.Violate("sort:not-fmt-order", fmt.Sprintf("%s: redact prints the values in the order %s, fmt in the order %s", desc, order, stdOrder), ln)
	}
	if is("C02") {
		for i := range outs[0] {
			if outs[0][i] != outs[1][i] || outs[0][i] != outs[0][i%2] {
				rep.Violate("sort:interference", fmt.Sprintf("%s: the redacted text depends on where the unsafe keys sit in their range or on the iteration order: %q vs %q", desc, outs[0][i], outs[1][i]), ln)
				break
			}
		}
	}
	rep.Nontrivial(ln.Kind + keysString(ln.Sorted))
}

func flatten(m [][]string) []string {
	var out []string
	for _, x := range m {
		out = append(out, x[1])
	}
	return out
}

func keysString(ks []sortKey) string {
	var parts []string
	for _, k := range ks {
		switch {
		case k.NaN:
			parts = append(parts, "NaN")
		case k.K == "str":
			parts = append(parts, fmt.Sprintf("%q", string(k.B)))
		case len(k.Xs) > 0:
			parts = append(parts, "("+keysString(k.Xs)+")")
		case k.K == "iface":
			parts = append(parts, "nil")
		default:
			parts = append(parts, fmt.Sprintf("#%d", k.N))
		}
	}
	return strings.Join(parts, " ")
}

func sortReplay(args []string) {
	fs := flag.NewFlagSet("sort-replay", flag.ExitOnError)
	prop := fs.String("prop", "C02", "")
	fs.Parse(args)
	rep := lib.NewReport(*prop, "sort-replay")
	lib.Parallel(runtime.NumCPU(), func(emit func([]byte)) {
		_ = lib.TLCLines(os.Stdin, func(raw []byte) { emit(append([]byte(nil), raw...)) })
	}, func(raw []byte) {
		var ln sortLine
		if err := json.Unmarshal(raw, &ln); err != nil || len(ln.Sorted) == 0 {
			return
		}
		rep.AddReplayed(1)
		rep.Guard("sort:panic", ln, func() { judgeSort(rep, *prop, ln, true) })
		if len(ln.Sorted) == 3 {
			rep.Sample(map[string]string{"kind": ln.Kind, "model_order": keysString(ln.Sorted)})
		}
	})
	rep.Finish()
}

func init() {
	register("sort-replay", "C02/C04: replay MCSort key sets on real maps (order of printing = FmtSort!Sorted)", sortReplay)
	extraReplayers["sort"] = func(rep *lib.Report, prop string, raw json.RawMessage) {
		var ln sortLine
		_ = json.Unmarshal(raw, &ln)
		judgeSort(rep, prop, ln, false)
	}
}
