#!/bin/sh
# evalmut.sh <mutdir> <PROP> [tier]  -- confirm a seeded change and run the property's check against it.
#  mutdir holds patch.diff and demo_test.go.  Steps:
#   1. in a scratch worktree of /repo (under /tmp, removed afterwards): patch applies, full suite passes with it,
#      demo fails with it, demo passes without it;
#   2. run ./check PROP with VERIF_REPO pointing at that scratch worktree (the registered commands use /repo;
#      the seeded-change protocol "apply to /repo, run, undo" is equivalent and can be used instead).
# prints one line: CONFIRMED/REJECTED <why> ; DETECTED/MISSED
set -u
MUT=$(cd "$1" && pwd); PROP=$2; TIER=${3:-quick}
LOGD=${MUTLOGS:-/var/tmp/mutlogs}; mkdir -p $LOGD; LOG=$LOGD/$(basename $MUT).$PROP.$TIER.log
export GOFLAGS=-mod=mod GOPROXY=off GOSUMDB=off GOTOOLCHAIN=local
W=/tmp/mutcheck.$$
git -C /repo worktree add -q --detach $W HEAD || exit 2
cleanup() { git -C /repo worktree remove --force $W >/dev/null 2>&1; }
trap cleanup EXIT
cd $W
cp $MUT/demo_test.go zz_demo_test.go
if ! go test -vet=off -count=1 -run TestDemo . >/tmp/mutcheck.$$.log 2>&1; then echo "REJECTED demo fails on the unchanged tree"; tail -5 /tmp/mutcheck.$$.log; rm -f /tmp/mutcheck.$$.log; exit 1; fi
rm zz_demo_test.go
if ! git apply $MUT/patch.diff 2>/tmp/mutcheck.$$.log; then echo "REJECTED patch does not apply"; cat /tmp/mutcheck.$$.log; rm -f /tmp/mutcheck.$$.log; exit 1; fi
if ! go build ./... >/tmp/mutcheck.$$.log 2>&1; then echo "REJECTED does not compile"; rm -f /tmp/mutcheck.$$.log; exit 1; fi
if ! go test -vet=off -count=1 ./... >/tmp/mutcheck.$$.log 2>&1; then echo "REJECTED existing suite fails with the change"; grep -E "FAIL|---" /tmp/mutcheck.$$.log | head -5; rm -f /tmp/mutcheck.$$.log; exit 1; fi
cp $MUT/demo_test.go zz_demo_test.go
if go test -vet=off -count=1 -run TestDemo . >/tmp/mutcheck.$$.log 2>&1; then echo "REJECTED demo passes with the change"; rm -f /tmp/mutcheck.$$.log; exit 1; fi
rm -f /tmp/mutcheck.$$.log
echo "CONFIRMED"
# run the property's check against the scratch worktree (which holds the change); /repo is not touched
rm -f zz_demo_test.go
cd ${VERIF_ROOT:-/verif}
VERIF_REPO=$W VERIF_REPLAY_DIR=${VERIF_ROOT:-/verif}/replays ./check $PROP --tier $TIER > $LOG 2>&1
rc=$?
if [ $rc -eq 1 ] && grep -q "^VIOLATION property=$PROP" $LOG; then echo "DETECTED by ./check $PROP --tier $TIER ($(grep -c '^VIOLATION' $LOG) violation lines)";
elif [ $rc -eq 2 ]; then echo "BROKEN check (rc=2): $(grep BROKEN $LOG | head -1 | cut -c1-200)";
else echo "MISSED by ./check $PROP --tier $TIER (rc=$rc, drift lines: $(grep -c '^MODEL-DRIFT' $LOG))"; fi
