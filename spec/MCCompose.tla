------------------------------ MODULE MCCompose ------------------------------
(***************************************************************************)
(* C08: redactables produced by the model itself, printed again, formatted *)
(* together, joined, and printed again.                                    *)
(***************************************************************************)
EXTENDS PSlices

\* ---- slice "compose" (C08): redactables obtained from the library, printed again, concatenated, joined
F5q == <<37, 53, 113>>   Fm8x == <<37, 45, 56, 120>>   Fp1s == <<37, 46, 49, 115>>
ComposeFormats == {Fv, Fs, F5q, Fm8x, Fp1s, Fd, FplusV}
KeyR == TRStr(3, <<107>>)                                      \* the redactable "k"
RShape(sh, r) ==
  CASE sh = "top"     -> r
    [] sh = "slice"   -> TSlice(30, <<r>>)
    [] sh = "mapval"  -> TMap(30, <<KeyR, r>>)
    [] sh = "structE" -> TStruct(30, <<r>>, <<FALSE>>)
    [] sh = "structu" -> TStruct(30, <<r>>, <<TRUE>>)
    [] sh = "ptr"     -> TPtrTo(33, TStruct(30, <<r>>, <<FALSE>>))
    [] sh = "deep"    -> TStruct(30, <<TSlice(34, <<r>>)>>, <<TRUE>>)
    [] sh = "safe"    -> TSafe(31, r)
    [] sh = "insafe"  -> TSafe(31, TSlice(30, <<r>>))
    [] sh = "svfield" -> TSafe(31, TStruct(30, <<r>>, <<TRUE>>))
    \* statically typed containers: []RedactableString, map[RedactableString]RedactableString (as key and as value)
    [] sh = "rvro"    -> TRValueRO(33, r)                                 \* reflect.Value through an unexported field
    [] sh = "tslice"  -> TTSlice(30, <<r, KeyR>>)
    [] sh = "tmapkey" -> TTMap(30, <<r, KeyR>>)
    [] sh = "tmapval" -> TTMap(30, <<KeyR, r>>)
RShapes == {"rvro", "top", "slice", "mapval", "structE", "structu", "ptr", "deep", "safe", "insafe", "svfield", "tslice", "tmapkey", "tmapval"}
\* what the statement says the reprint is: the punctuation of the shape around the unchanged redactable
RWrap(sh, b, plus) ==
  CASE sh = "top"     -> b
    [] sh = "slice"   -> <<91>> \o b \o <<93>>
    [] sh = "mapval"  -> MapOpen \o <<107, 58>> \o b \o <<93>>
    [] sh = "structE" -> <<123>> \o (IF plus THEN <<65, 58>> ELSE <<>>) \o b \o <<125>>
    [] sh = "structu" -> <<123>> \o (IF plus THEN <<97, 58>> ELSE <<>>) \o b \o <<125>>
    [] sh = "ptr"     -> <<38, 123>> \o (IF plus THEN <<65, 58>> ELSE <<>>) \o b \o <<125>>
    [] sh = "deep"    -> <<123>> \o (IF plus THEN <<97, 58>> ELSE <<>>) \o <<91>> \o b \o <<93, 125>>
    [] sh = "safe"    -> b
    [] sh = "rvro"    -> b
    [] sh = "insafe"  -> <<91>> \o b \o <<93>>
    [] sh = "svfield" -> <<123>> \o (IF plus THEN <<97, 58>> ELSE <<>>) \o b \o <<125>>
    [] sh = "tslice"  -> <<91>> \o b \o <<SP, 107, 93>>
    [] sh = "tmapkey" -> MapOpen \o b \o <<58, 107, 93>>
    [] sh = "tmapval" -> MapOpen \o <<107, 58>> \o b \o <<93>>
\* a StringBuilder as an operand: what it prints is the redactable it holds (StringBuilder.SafeFormat), whatever the verb
BuilderOps(p) == {<<SSafeString(<<A>>), SUnsafeString(p), SSafeString(<<A>>)>>, <<>>, <<SWriteStr(p), SSafeRune(8249)>>}
                 \cup IF Slice = "compose" THEN {<<SUnsafeString(p)>>, <<SUnsafeString(p), SPrint(<<TStr(9, <<A>> \o p)>>)>>} ELSE {}
R0(p) == Out(Sprint(<<TStr(1, p)>>))                             \* a redactable obtained from the library
JoinOf(d, a, b) == Out(SBRun(<<SPrint(<<TRStr(4, a)>>), SPrint(<<TRStr(5, d)>>), SPrint(<<TRStr(6, b)>>)>>))     \* redact.Join
ComposeRoots == Pay(IF Slice = "compose" THEN 2 ELSE 1)
ComposeDelims == {<<44>>, StartM \o <<44>> \o EndM, <<NL>>}
\* the cases of one payload, in four shards (root = <<payload, shard>>) so that TLC's workers share the work
ComposeExpand(p, sh4) ==
  LET r == R0(p)
      Fmts == CASE sh4 = 0 -> {Fv, Fs} [] sh4 = 1 -> {F5q, Fm8x} [] sh4 = 2 -> {Fp1s, Fd, FplusV} [] OTHER -> {}
  IN
  {Case("Sprintf", f, <<RShape(sh, TRStr(2, r))>>, <<>>) : f \in Fmts, sh \in RShapes}
  \cup (IF sh4 # 3 THEN {} ELSE
  {Case("Sprintf", Fv, <<RShape(sh, TRBytes(2, r))>>, <<>>) : sh \in RShapes \ {"tslice", "tmapkey", "tmapval"}}
  \* RedactableBytes under the byte-string verbs, nested in untyped and statically typed containers
  \cup {Case("Sprintf", f, <<RShape(sh, TRBytes(2, r))>>, <<>>) : f \in {Fs, F5q, Fm8x}, sh \in {"slice", "structE", "structu", "ptr"}}
  \cup {Case("Sprintf", f, <<x>>, <<>>) : f \in {Fv, Fs, F5q, Fm8x},
                                         x \in {TTSlice(30, <<TRBytes(2, r), TRBytes(3, <<107>>)>>), TTArray(30, <<TRBytes(2, r), TRBytes(3, <<107>>)>>),
                                                TTMap(30, <<TRStr(3, <<107>>), TRBytes(2, r)>>)}}
  \cup {Case("Sprint", <<>>, <<TRStr(2, r)>>, <<>>)}
  \* an empty unsafe operand right before the redactable; Go-syntax printing of typed containers of redactables
  \cup {Case("Sprintf", Fs \o Fv, <<TStr(8, <<>>), TRStr(2, r)>>, <<>>), Case("Sprint", <<>>, <<TStr(8, <<>>), TRStr(2, r)>>, <<>>)}
  \cup {Case("Sprintf", FsharpV, <<RShape(sh, TRStr(2, r))>>, <<>>) : sh \in {"tslice", "tmapkey", "slice", "structE"}}
  \* a RedactableBytes operand directly followed / preceded by an unsafe one: where the redactable ends in an envelope the
  \* buffer continues that envelope (the operand itself must not change, nor share memory with the result)
  \cup {Case("Sprintf", Fv \o Fv, <<TRBytes(2, r), TStr(9, P(9))>>, <<>>), Case("Sprint", <<>>, <<TRBytes(2, r), TStr(9, P(9))>>, <<>>),
        Case("Sprintf", Fv \o Fv, <<TStr(9, P(9)), TRBytes(2, r)>>, <<>>), Case("Sprintf", Fv \o Fd, <<TRBytes(2, r), TInt(9, 5)>>, <<>>)}
  \* the very same container twice in one call (same object, not an equal copy)
  \cup {Case("Sprintf", Fv \o <<124>> \o Fv, <<x, x>>, <<>>) : x \in {TSlice(30, <<TRStr(2, r), KeyR>>), TMap(30, <<KeyR, TRStr(2, r)>>), TTSlice(30, <<TRStr(2, r), KeyR>>)}}
  \cup {Case("Sprint", <<>>, <<TSlice(31, <<TSlice(30, <<TRStr(2, r)>>), TSlice(30, <<TRStr(2, r)>>)>>)>>, <<>>)}
  \cup UNION {LET rq == R0(q)  jn == JoinOf(d, r, rq) IN
              {Case("Sprintf", <<120>> \o Fv \o <<121>> \o Fs \o <<122>>, <<TRStr(2, r), TRStr(7, rq)>>, <<>>),
               Case("Sprint", <<>>, <<TRStr(2, jn)>>, <<>>),
               Case("Sprintf", F5q, <<TSlice(30, <<TRStr(2, jn), TRStr(7, r)>>)>>, <<>>)}
              : q \in {<<>>, <<A>>, <<NL>>, StartM, <<A, 226>>}, d \in ComposeDelims})
  \cup (IF sh4 # 2 THEN {} ELSE
  UNION {LET bld == TBuilder(40, ops) IN          \* (one syntactic reference: TLC's start-up cost grows with each)
         {Case("Sprintf", f, <<bld>>, <<>>) : f \in {Fv, Fs, F5q, Fd, Fm8x}}
              \cup {Case("Sprint", <<>>, <<bld>>, <<>>), Case("Sprintf", Fv, <<TSlice(30, <<bld, TRStr(2, r)>>)>>, <<>>),
                    Case("Sprintf", Fv \o <<32>> \o StartM \o <<32>> \o Fs, <<bld, TStr(12, P(12))>>, <<>>),    \* a marker in the literal after it
                    Case("Sprintf", Fv, <<TUnsafe(41, bld)>>, <<>>), Case("Sprintf", Fs, <<TSafe(41, bld)>>, <<>>)}
              : ops \in BuilderOps(p)})


CInit == lvl = 0 /\ c = NoCase /\ root \in ComposeRoots \X (0..3)
CNext == lvl = 0 /\ lvl' = 1 /\ root' = root /\ c' \in ComposeExpand(root[1], root[2])
CSpec == CInit /\ [][CNext]_allvars

\* C08 on the slice "compose"
C08Holds(k, r) ==
  LET out == Out(r)  r0 == R0(root[1]) IN
  /\ WellFormed(out) /\ LineSafe(out)                                   \* closure: still a redactable
  \* re-printing is identity, whatever the verb, flags and container
  /\ \A sh \in RShapes :
        (Len(k.ts) = 1 /\ k.e = "Sprintf" /\ k.ts[1] \in {RShape(sh, TRStr(2, r0)), RShape(sh, TRBytes(2, r0))})
          => IF k.f = FsharpV
             \* Go syntax: type names and braces around it, the redactable itself unchanged (at any depth)
             THEN \E i \in 0..(Len(out) - Len(r0)) : SubSeq(out, i + 1, i + Len(r0)) = r0
             ELSE out = RWrap(sh, r0, k.f = FplusV)
  \* a StringBuilder operand prints exactly what it holds; under Unsafe() its text (markers stripped) in one envelope
  /\ (Len(k.ts) = 1 /\ k.ts[1].k = "builder") => out = BuilderText(k.ts[1])
  /\ (Len(k.ts) = 1 /\ k.ts[1].k = "safe" /\ k.ts[1].xs[1].k = "builder") => out = BuilderText(k.ts[1].xs[1])
  /\ (Len(k.ts) = 1 /\ k.ts[1].k = "unsafe" /\ k.ts[1].xs[1].k = "builder") =>
        (DeleteEnvelopes(out) = OnlyOf(Strip(BuilderText(k.ts[1].xs[1])), NL) /\ Strip(out) = EscapeMarkers(Strip(BuilderText(k.ts[1].xs[1]))))
  /\ (Len(k.ts) = 1 /\ k.ts[1].k = "slice" /\ Len(k.ts[1].xs) = 2 /\ k.ts[1].xs[1].k = "builder") =>
        out = <<91>> \o BuilderText(k.ts[1].xs[1]) \o <<SP>> \o k.ts[1].xs[2].b \o <<93>>
  /\ (Len(k.ts) = 1 /\ k.ts[1].k = "slice" /\ Len(k.ts[1].xs) = 2 /\ k.ts[1].xs[1].k \in {"rstring", "rbytes"}) =>
        out = <<91>> \o k.ts[1].xs[1].b \o <<SP>> \o k.ts[1].xs[2].b \o <<93>>
  /\ (Len(k.ts) = 1 /\ k.e = "Sprint" /\ k.ts[1].k = "rstring") =>
        /\ out = k.ts[1].b                                               \* Sprint(Sprint(a)) = Sprint(a), joined ones too
        /\ Redact(out) = Redact(k.ts[1].b)
  \* formatting several redactables = concatenation with the literals
  \* typed containers of RedactableBytes: the redactable appears unchanged, whatever the verb
  /\ (Len(k.ts) = 1 /\ k.ts[1].k \in {"tslice", "tarray", "tmap"} /\ \E i \in 1..Len(k.ts[1].xs) : k.ts[1].xs[i].k = "rbytes") =>
        \E i \in 0..(Len(out) - Len(r0)) : SubSeq(out, i + 1, i + Len(r0)) = r0
  /\ (Len(k.ts) = 2 /\ k.ts[1] = k.ts[2] /\ k.ts[1].k \in {"slice", "map", "tslice"}) =>
        \E half \in 1..Len(out) : out = SubSeq(out, 1, half) \o <<124>> \o SubSeq(out, 1, half)
  /\ (Len(k.ts) = 2 /\ k.ts[1].k = "string" /\ k.ts[1].b = <<>>) => out = k.ts[2].b     \* the empty operand adds nothing
  /\ (Len(k.ts) = 2 /\ k.ts[1].k = "rbytes" /\ k.ts[2].k = "string") => Strip(out) = Strip(k.ts[1].b) \o k.ts[2].b
  /\ (Len(k.ts) = 2 /\ k.ts[2].k = "rbytes" /\ k.ts[1].k = "string") => Strip(out) = k.ts[1].b \o Strip(k.ts[2].b)
  /\ (Len(k.ts) = 2 /\ k.ts[1].k = "rstring") =>
                        /\ out = <<120>> \o k.ts[1].b \o <<121>> \o k.ts[2].b \o <<122>>
                        /\ Redact(out) = <<120>> \o Redact(k.ts[1].b) \o <<121>> \o Redact(k.ts[2].b) \o <<122>>
                        /\ (ValidUTF8(out) => Strip(out) = <<120>> \o Strip(k.ts[1].b) \o <<121>> \o Strip(k.ts[2].b) \o <<122>>)
\* Join = plain concatenation with the delimiter (checked where the joined value is built)
C08Join(d, a, b) == JoinOf(d, a, b) = a \o d \o b


Holds(name, cond) == IF cond THEN TRUE ELSE PrintT(<<"INVARIANT-FAILED", name, c>>) /\ FALSE

\* the ONE zero-arity definition of this module that reaches the printer operators (besides CNext)
Check == lvl = 1 =>
  LET r == Run(c)  ok == ~Exc(r) IN
  /\ Holds("C08", ok /\ C08Holds(c, r))
  /\ Holds("C08join", (c.e = "Sprint" /\ c.ts[1].id = 2 /\ Len(c.ts[1].b) = 0) =>
              \A d \in ComposeDelims : \A q \in {<<>>, <<NL>>, StartM, <<A, 226>>} : C08Join(d, R0(root[1]), R0(q)))
  /\ (EmitOn => PrintT(ToJson([c |-> c, exc |-> ~ok, out |-> IF ok THEN Out(r) ELSE <<>>, rt |-> r.rt,
                                calls |-> r.calls, werr |-> r.wrappedErr])))
=============================================================================
