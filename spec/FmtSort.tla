------------------------------ MODULE FmtSort ------------------------------
(***************************************************************************)
(* internal/rfmt/fmtsort/sort.go: the order in which the entries of a map  *)
(* are printed (printValue, case Map, calls fmtsort.Sort).  Keys are       *)
(* abstract terms                                                          *)
(*   [k |-> "int" | "uint" | "bool", n |-> rank]     (a rank in the        *)
(*                     kind's value range; the harness maps ranks to       *)
(*                     concrete values, the extremes of the range included)*)
(*   [k |-> "str", b |-> bytes]                      (bytewise order)      *)
(*   [k |-> "float", n |-> rank, nan |-> BOOLEAN]    (NaN compares low)    *)
(*   [k |-> "complex", xs |-> <<re, im>>]            (real part first)     *)
(*   [k |-> "struct" | "array", xs |-> fields]       (lexicographic)       *)
(*   [k |-> "iface", xs |-> <<>> | <<dyn>>]          (nil first; dynamic   *)
(*                     values of one type by value -- the order between    *)
(*                     DIFFERENT dynamic types is by type address and is   *)
(*                     kept out of the enumerations)                       *)
(* Compare is the function of the same name; Sorted is sort.Stable with it.*)
(***************************************************************************)
EXTENDS Integers, Sequences, FiniteSets

KInt(n)      == [k |-> "int", n |-> n, b |-> <<>>, nan |-> FALSE, xs |-> <<>>]
KUint(n)     == [KInt(n) EXCEPT !.k = "uint"]
KBool(n)     == [KInt(n) EXCEPT !.k = "bool"]
KStr(b)      == [KInt(0) EXCEPT !.k = "str", !.b = b]
KFloat(n)    == [KInt(n) EXCEPT !.k = "float"]
KNaN         == [KInt(0) EXCEPT !.k = "float", !.nan = TRUE]
KComplex(r, i) == [KInt(0) EXCEPT !.k = "complex", !.xs = <<r, i>>]
KStruct(xs)  == [KInt(0) EXCEPT !.k = "struct", !.xs = xs]
KArray(xs)   == [KInt(0) EXCEPT !.k = "array", !.xs = xs]
KNilIface    == [KInt(0) EXCEPT !.k = "iface"]
KIface(x)    == [KInt(0) EXCEPT !.k = "iface", !.xs = <<x>>]

Sign(d) == IF d < 0 THEN -1 ELSE IF d > 0 THEN 1 ELSE 0

RECURSIVE BytesCmp(_, _)
BytesCmp(a, b) == IF a = <<>> THEN (IF b = <<>> THEN 0 ELSE -1)
                  ELSE IF b = <<>> THEN 1
                  ELSE IF Head(a) # Head(b) THEN Sign(Head(a) - Head(b))
                  ELSE BytesCmp(Tail(a), Tail(b))

\* floatCompare: a NaN on the left compares low whatever the right side is
FloatCmp(a, b) == IF a.nan THEN -1 ELSE IF b.nan THEN 1 ELSE Sign(a.n - b.n)

RECURSIVE Compare(_, _), SeqCmp(_, _)
Compare(a, b) ==
  CASE a.k \in {"int", "uint", "bool"} -> Sign(a.n - b.n)
    [] a.k = "str"     -> BytesCmp(a.b, b.b)
    [] a.k = "float"   -> FloatCmp(a, b)
    [] a.k = "complex" -> LET c == FloatCmp(a.xs[1], b.xs[1]) IN IF c # 0 THEN c ELSE FloatCmp(a.xs[2], b.xs[2])
    [] a.k \in {"struct", "array"} -> SeqCmp(a.xs, b.xs)
    [] a.k = "iface"   -> IF a.xs = <<>> THEN (IF b.xs = <<>> THEN 0 ELSE -1)
                          ELSE IF b.xs = <<>> THEN 1
                          ELSE Compare(a.xs[1], b.xs[1])          \* (same dynamic type)
SeqCmp(xs, ys) == IF xs = <<>> THEN 0
                  ELSE LET c == Compare(Head(xs), Head(ys)) IN IF c # 0 THEN c ELSE SeqCmp(Tail(xs), Tail(ys))

\* sort.Stable with Less(i, j) = Compare < 0: insertion sort
RECURSIVE Insert(_, _), Sorted(_)
Insert(x, s) == IF s = <<>> THEN <<x>>
                ELSE IF Compare(x, Head(s)) < 0 THEN <<x>> \o s
                ELSE <<Head(s)>> \o Insert(x, Tail(s))
\* (a stable sort of an already sorted prefix: insert from the back so that equal keys keep their order)
Sorted(s) == IF s = <<>> THEN <<>> ELSE Insert(Head(s), Sorted(Tail(s)))

HasNaN(a) == a.nan \/ \E i \in 1..Len(a.xs) : a.xs[i].nan
=============================================================================
