// Command conf is the conformance harness that binds the TLA+ specification
// in /verif/spec to the implementation in /repo: it replays model
// transitions emitted by TLC on the real code, records traces of the real
// code for TLC to validate, and evaluates the properties' own predicates on
// every real result.
package main

import (
	"fmt"
	"os"

	"github.com/cockroachdb/redact"
)

type command struct {
	name string
	run  func(args []string)
	doc  string
}

var commands []command

func register(name, doc string, run func(args []string)) {
	commands = append(commands, command{name, run, doc})
}

func main() {
	if len(os.Args) < 2 {
		usage()
	}
	for _, c := range commands {
		if c.name == os.Args[1] {
			scribble()
			c.run(os.Args[2:])
			return
		}
	}
	usage()
}

// scribble: a caller may do what it likes with the slices the API hands out.  Before any stage runs, every such slice
// is overwritten; if the library had handed out its own (the marker constants the escaper compares against, a pooled
// scratch buffer), everything checked afterwards would show it.
func scribble() {
	for _, m := range [][]byte{redact.StartMarker(), redact.EndMarker(), redact.RedactedMarker(),
		redact.EscapeMarkers([]byte("a‹b›c")), []byte(redact.EscapeBytes([]byte("x\ny‹"))),
		redact.RedactableBytes("a ‹b› c").Redact(), redact.RedactableBytes("a ‹b› c").StripMarkers(), redact.RedactableString("a ‹b›").ToBytes()} {
		full := m[:cap(m)]
		for i := range full {
			full[i] = 'X'
		}
	}
}

func usage() {
	fmt.Fprintln(os.Stderr, "usage: conf <command> [flags]")
	for _, c := range commands {
		fmt.Fprintf(os.Stderr, "  %-18s %s\n", c.name, c.doc)
	}
	os.Exit(2)
}
