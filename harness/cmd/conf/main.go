// Command conf is the conformance harness that binds the TLA+ specification
// in /verif/spec to the implementation in /repo: it replays model
// transitions emitted by TLC on the real code, records traces of the real
// code for TLC to validate, and evaluates the properties' own predicates on
// every real result.
package main

import (
	"fmt"
	"os"
	"reflect"

	"github.com/cockroachdb/redact"
)

type command struct {
	name string
	run  func(args []string)
	doc  string
}

var commands []command

func register(name, doc string, run func(args []string)) {
	commands = append(commands, command{name, run, doc})
}

func main() {
	if len(os.Args) < 2 {
		usage()
	}
	for _, c := range commands {
		if c.name == os.Args[1] {
			scribble()
			firstCalls()
			c.run(os.Args[2:])
			return
		}
	}
	usage()
}

// scribble: a caller may do what it likes with the slices the API hands out.  Before any stage runs, every such slice
// is overwritten; if the library had handed out its own (the marker constants the escaper compares against, a pooled
// scratch buffer), everything checked afterwards would show it.
func scribble() {
	for _, m := range [][]byte{redact.StartMarker(), redact.EndMarker(), redact.RedactedMarker(),
		redact.EscapeMarkers([]byte("a‹b›c")), []byte(redact.EscapeBytes([]byte("x\ny‹"))),
		redact.RedactableBytes("a ‹b› c").Redact(), redact.RedactableBytes("a ‹b› c").StripMarkers(), redact.RedactableString("a ‹b›").ToBytes()} {
		full := m[:cap(m)]
		for i := range full {
			full[i] = 'X'
		}
	}
}

// firstCalls: the first thing a process prints must not decide anything for what it prints later.  Before any stage the
// harness makes the calls that are the most PERMISSIVE first instance of every position a value can stand in -- a
// SafeValue in an interface-typed slice element, map value, struct field and reflect.Value, a Safe() wrapper next to
// them, an error and a Stringer in the same slots -- so that whatever the library might remember per static type, per
// call site or per printer (a cache of "is this a SafeValue", of field names, of a verdict) is filled in the way that
// would LEAK if it were ever applied to the next value.
func firstCalls() {
	defer func() { recover() }()
	type holder struct {
		A interface{}
		b interface{}
		E error
		S fmt.Stringer
	}
	sv := redact.SafeString("first")
	_ = redact.Sprint([]interface{}{sv, redact.Safe(1), redact.SafeInt(2)}, map[string]interface{}{"k": sv}, map[interface{}]interface{}{sv: sv},
		holder{sv, sv, nil, nil}, &holder{A: redact.Safe("x")}, reflect.ValueOf(sv), reflect.ValueOf([]interface{}{sv}).Index(0),
		[]fmt.Stringer{nil}, []error{nil}, [1]interface{}{sv})
	_ = redact.Sprintf("%v %+v %#v %s %d %q %x", sv, []interface{}{sv}, holder{A: sv}, sv, redact.SafeInt(3), sv, sv)
	var sb redact.StringBuilder
	sb.Print([]interface{}{sv})
	sb.Printf("%v", map[string]interface{}{"k": sv})
	_, _ = redact.HelperForErrorf("%v", []interface{}{sv})
}

func usage() {
	fmt.Fprintln(os.Stderr, "usage: conf <command> [flags]")
	for _, c := range commands {
		fmt.Fprintf(os.Stderr, "  %-18s %s\n", c.name, c.doc)
	}
	os.Exit(2)
}
