package main

import (
	"bytes"
	"encoding/json"
	"flag"
	"fmt"

	"github.com/cockroachdb/redact"
	"github.com/cockroachdb/redact/verifharness/lib"
)

// deep-drive: nesting depth is another quantity the specification abstracts from (its enumerations nest two or
// three levels).  Chains of n SafeFormatters, each printing the next through the printer it was given (Print or
// Printf), and slices nested n deep, for n up to a few hundred, through every route: the routes must agree with the
// direct call (C16), the text must be what the chain says (leaf once, in its envelope), nothing may panic (C11).

type deepChain struct {
	n      int
	printf bool
	leaf   interface{}
}

func (d deepChain) SafeFormat(p redact.SafePrinter, _ rune) {
	var next interface{} = d.leaf
	if d.n > 1 {
		next = deepChain{d.n - 1, d.printf, d.leaf}
	}
	if d.printf {
		p.Printf("%v", next)
	} else {
		p.Print(next)
	}
}

type deepCase struct {
	Kind   string `json:"kind"`
	Depth  int    `json:"depth"`
	Printf bool   `json:"printf"`
	Slices bool   `json:"slices"`
}

func judgeDeep(rep *lib.Report, k deepCase) {
	var operand interface{}
	want := "‹leaf› ‹12›"
	if k.Slices {
		operand = "leaf"
		open, clos := "", ""
		for i := 0; i < k.Depth; i++ {
			operand = []interface{}{operand}
			open, clos = open+"[", clos+"]"
		}
		want = open + "‹leaf›" + clos + " ‹12›"
	} else {
		operand = deepChain{k.Depth, k.Printf, "leaf"}
	}
	args := []interface{}{operand, 12}
	direct := redact.Sprint(args...)
	rep.AddEval(1)
	if got := string(direct.Redact()); got != string(redact.RedactableString(want).Redact()) || string(direct.StripMarkers()) != string(redact.RedactableString(want).StripMarkers()) {
		rep.Violate("deep:text", fmt.Sprintf("nesting depth %d (%+v): Sprint prints %q, want the same characters as %q", k.Depth, k, head([]byte(direct)), head([]byte(want))), k)
		return
	}
	routes := map[string]func() redact.RedactableString{
		"Fprint": func() redact.RedactableString {
			var b bytes.Buffer
			redact.Fprint(&b, args...)
			return redact.RedactableString(b.String())
		},
		"StringBuilder.Print": func() redact.RedactableString {
			var sb redact.StringBuilder
			sb.Print(args...)
			return sb.RedactableString()
		},
		"Sprintfn": func() redact.RedactableString {
			return redact.Sprintfn(func(w redact.SafePrinter) { w.Print(args...) })
		},
		"SafeFormat":        func() redact.RedactableString { return redact.Sprint(sfRoute{false, "", args}) },
		"Sprintf":           func() redact.RedactableString { return redact.Sprintf("%v %v", args...) },
		"SafeFormat/Printf": func() redact.RedactableString { return redact.Sprint(sfRoute{true, "%v %v", args}) },
	}
	for name, fn := range routes {
		got := fn()
		rep.AddEval(1)
		if !lib.WellFormed([]byte(got)) || !lib.ChunksEqual(lib.NormOf([]byte(got)), lib.NormOf([]byte(direct))) {
			rep.Violate("deep:routes-differ", fmt.Sprintf("nesting depth %d (%+v): route %s gives %q, the direct call %q", k.Depth, k, name, head([]byte(got)), head([]byte(direct))), k)
		}
	}
	rep.Nontrivial(fmt.Sprint(k))
}

func deepDrive(args []string) {
	fs := flag.NewFlagSet("deep-drive", flag.ExitOnError)
	prop := fs.String("prop", "C16", "")
	fs.Parse(args)
	rep := lib.NewReport(*prop, "deep-drive")
	defer installPoolMonitor(rep)()
	for _, n := range []int{1, 2, 3, 9, 10, 31, 32, 33, 63, 64, 65, 98, 99, 100, 101, 127, 128, 129, 255, 256, 257, 500} {
		for _, k := range []deepCase{{"deep", n, false, false}, {"deep", n, true, false}, {"deep", n, false, true}} {
			k := k
			rep.Guard("deep:panic", k, func() { judgeDeep(rep, k) })
		}
	}
	rep.SampleIfFew(map[string]interface{}{"max_depth": 500})
	rep.Finish()
}

func init() {
	register("deep-drive", "C16/C11: nesting depths up to 500 (SafeFormatter chains, nested slices) through every route", deepDrive)
	extraReplayers["deep"] = func(rep *lib.Report, prop string, raw json.RawMessage) {
		var k deepCase
		_ = json.Unmarshal(raw, &k)
		judgeDeep(rep, k)
	}
}
