------------------------------- MODULE PSpec -------------------------------
(***************************************************************************)
(* The two-level state space over the slices of PSlices: a root is chosen, *)
(* then one case of its expansion.                                         *)
(***************************************************************************)
EXTENDS PSlices

Init == lvl = 0 /\ c = NoCase /\ root \in Roots
Next == lvl = 0 /\ lvl' = 1 /\ root' = root /\ c' \in Expand(root)
Spec == Init /\ [][Next]_allvars
=============================================================================
