------------------------------ MODULE PSlices ------------------------------
(***************************************************************************)
(* Shared by MCPrinter / MCRoutes / MCCompose (each of which has ONE      *)
(* zero-arity definition reaching the printer operators, see there).       *)
(* Enumerates printing CASES (entry point, format, operand terms) slice by *)
(* slice, runs the Printer specification on each, checks the invariants,   *)
(* and emits case + prediction for replay on the real code.                *)
(* Two levels (root -> case) so that TLC's workers share the work.         *)
(***************************************************************************)
EXTENDS Printer, TLC, Json, FiniteSets

CONSTANTS Slice, EmitOn, RndSeed, RndN
VARIABLES c, lvl
vars == <<c, lvl>>

Case(e, f, ts, scr) == [e |-> e, f |-> f, ts |-> ts, scr |-> scr]
NoCase == Case("none", <<>>, <<>>, <<>>)

P(id) == <<PTok + id>>                      \* an opaque non-empty plain payload
Fv == <<37, 118>>   Fs == <<37, 115>>   Fd == <<37, 100>>   Fw == <<37, 119>>   Fq == <<37, 113>>
Fx == <<37, 120>>   FT == <<37, 84>>    Fp == <<37, 112>>   FZ == <<37, 90>>
FplusV == <<37, 43, 118>>   FsharpV == <<37, 35, 118>>   F5v == <<37, 53, 118>>  Fm8d == <<37, 45, 56, 100>>
LitF(b, f) == b \o f
A == 97

Obj(id, caps) == TObj(id, caps, <<SSafeString(<<115, 102>>), SUnsafeString(P(id + 50))>>,
                      <<SWrite(<<102, 109>> \o P(id + 60)), SWriteStr(P(id + 61))>>, P(id + 70), <<>>)

---------------------------------------------------------------------------
\* slice "smoke": hand-picked cases that touch every operator of the model once
SmokeTerms == {
  TStr(1, P(1)), TStr(1, <<A, NL, A>>), TStr(1, <<>>), TStr(1, StartM \o <<A>>), TInt(1, 42), TUint(1, 7), TBool(1), TFloat(1), TNil(1),
  TSafe(2, TStr(1, P(1))), TUnsafe(2, TStr(1, P(1))), TSafe(2, TInt(1, 5)), TUnsafe(2, TInt(1, 5)),
  TSafe(3, TUnsafe(2, TStr(1, P(1)))), TUnsafe(3, TSafe(2, TStr(1, P(1)))),
  TRStr(1, <<A>> \o StartM \o <<A>> \o EndM), TUnsafe(2, TRStr(1, <<A>> \o StartM \o <<A>> \o EndM)),
  TSlice(9, <<TInt(1, 1), TStr(2, P(2)), TNil(3)>>),
  TSlice(9, <<TSafe(2, TStr(1, P(1))), TUnsafe(4, TInt(3, 3))>>),
  TSlice(9, <<TRStr(1, StartM \o <<A>> \o EndM)>>),
  TMap(9, <<TInt(1, 1), TStr(2, P(2)), TInt(3, 2), TSafe(5, TInt(4, 9))>>),
  TStruct(9, <<TInt(1, 1), TStr(2, P(2))>>, <<FALSE, TRUE>>),
  TStruct(9, <<TSafe(2, TStr(1, P(1))), TSafe(4, TStr(3, P(3)))>>, <<FALSE, TRUE>>),
  TStruct(9, <<TNil(1), TUnsafe(3, TInt(2, 2))>>, <<TRUE, FALSE>>),
  TPtrTo(10, TStruct(9, <<TInt(1, 1)>>, <<FALSE>>)), TPtrTo(10, TSlice(9, <<TStr(1, P(1))>>)), TNilPtr(1),
  TUnsafe(10, TSlice(9, <<TSafe(2, TStr(1, P(1)))>>)), TSafe(10, TSlice(9, <<TStr(1, P(1)), TInt(2, 2)>>)),
  TSStr(1, P(1)), TSStr(1, StartM \o <<A>>), TComplex(1), TSafe(2, TComplex(1)), TSlice(9, <<TComplex(1), TSStr(2, P(2))>>), TUnsafe(2, TSStr(1, P(1))),
  TRValue(5, TStr(1, P(1))), TRValue(5, TInt(1, 9)), TRValue(5, TNil(1)), TInvalidRV(5), TRValue(5, TSafe(2, TStr(1, P(1)))), TRValue(5, TUnsafe(2, TInt(1, 3))),
  TRValue(5, TRStr(1, StartM \o <<A>> \o EndM)), TRValue(5, Obj(1, {"SF"})), TRValue(5, Obj(1, {"ST", "SV"})), TRValue(5, Obj(1, {"REG"})), TRValue(5, Obj(1, {"ER", "NILP"})),
  TRValue(5, TStruct(9, <<TInt(1, 1), TSafe(3, TStr(2, P(2)))>>, <<FALSE, TRUE>>)), TRValue(5, TPtrTo(10, TStruct(9, <<TInt(1, 1)>>, <<FALSE>>))),
  TUnsafe(6, TRValue(5, TStr(1, P(1)))), TSafe(6, TRValue(5, TInt(1, 4))),
  \* redactables that end in a truncated sequence / in a line feed, alone
  TRStr(1, StartM \o <<A>> \o EndM \o <<A, 226>>), TRBytes(1, <<A, 226, 128>>), TRStr(1, <<A, NL>>),
  \* a redactable that carries an empty envelope (as EscapeBytes(nil) makes one): copied as it is by every route
  TRStr(1, <<A>> \o StartM \o EndM \o <<A>>), TRBytes(1, StartM \o EndM),
  \* channels and funcs (printed as pointers)
  TChan(1), TFunc(1), TSlice(9, <<TChan(1), TFunc(2)>>), TUnsafe(2, TChan(1)), TSafe(2, TFunc(1)), TStruct(9, <<TChan(1), TFunc(2)>>, <<FALSE, TRUE>>),
  \* reflect.Values obtained through an unexported field (not interfaceable)
  TRValueRO(5, TRStr(1, StartM \o <<A>> \o EndM \o <<A>>)), TRValueRO(5, TRBytes(1, <<A>> \o StartM \o <<A>> \o EndM)), TRValueRO(5, TStr(1, P(1))),
  TRValueRO(5, TInt(1, 9)), TRValueRO(5, TSStr(1, P(1))), TSafe(6, TRValueRO(5, TStr(1, P(1)))), TUnsafe(6, TRValueRO(5, TRStr(1, StartM \o <<A>> \o EndM))),
  Obj(1, {"SF"}), Obj(1, {"SM"}), Obj(1, {"SV"}), Obj(1, {"ER"}), Obj(1, {"FM"}), Obj(1, {"GS"}), Obj(1, {"ST"}), Obj(1, {"REG"}), Obj(1, {}),
  Obj(1, {"SF", "SM", "ER", "FM", "ST"}), Obj(1, {"SM", "ER", "FM"}), Obj(1, {"ER", "ST", "GS"}), Obj(1, {"ST", "SV"}),
  Obj(1, {"ST", "NILP"}), Obj(1, {"SF", "NILP"}), Obj(1, {"ER", "REG"}),
  TUnsafe(2, Obj(1, {"SF", "ST"})), TSafe(2, Obj(1, {"ST"})), TSlice(9, <<Obj(1, {"ER"}), Obj(2, {"SF"})>>),
  TObj(1, {"ST"}, <<>>, <<>>, <<>>, <<TStr(5, P(5))>>),                      \* String() panics
  TObj(1, {"SF"}, <<SSafeString(<<A>>), SUnsafeString(P(2)), SPanic(TStr(5, P(5)))>>, <<>>, <<>>, <<>>),
  TObj(1, {"SF"}, <<SSafeString(<<A>>), SPrint(<<TStr(2, P(2)), TInt(3, 3), TSafe(5, TStr(4, P(4)))>>), SSafeInt(6, 12)>>, <<>>, <<>>, <<>>),
  TObj(1, {"SF"}, <<SPrintf(<<A>> \o Fv \o Fd, <<TStr(2, P(2)), TInt(3, 3)>>), SWrite(P(7)), SUnsafeRune(8249), SSafeRune(8250), SUnsafeByte(226), SSafeByte(A)>>, <<>>, <<>>, <<>>),
  TObj(1, {"SF"}, <<SPrint(<<TObj(2, {"ST"}, <<>>, <<>>, <<>>, <<TStr(5, P(5))>>)>>)>>, <<>>, <<>>, <<>>),
  TObj(1, {"SF"}, <<SSafeString(<<A>>), SPrint(<<TObj(2, {"SF"}, <<SPanic(TStr(5, P(5)))>>, <<>>, <<>>, <<>>)>>)>>, <<>>, <<>>, <<>>),
  TObj(1, {"ST"}, <<>>, <<>>, <<>>, <<TObj(5, {"ST"}, <<>>, <<>>, <<>>, <<TStr(6, P(6))>>)>>),      \* panic payload panics while printed
  TUnsafe(3, TObj(1, {"FM"}, <<>>, <<SDiscover, SPrintf(<<A>> \o Fd \o Fs, <<TInt(4, 1), TSafe(6, TStr(5, P(5)))>>)>>, <<>>, <<>>)),   \* F3
  TObj(1, {"FM"}, <<>>, <<SWrite(P(2)), SDiscover, SSafeString(<<A>>), SPrint(<<TInt(3, 3)>>)>>, <<>>, <<>>)
}
\* (two literals that end in a rune whose last byte is that of the end marker, right before the operand: n.º, ₺)
SmokeFormats == {Fv, Fs, Fd, FplusV, FsharpV, F5v, FT, Fq, Fw, LitF(<<A, 32>>, Fv) \o <<32, A>>, FZ, Fm8d,
                 <<110, 194, 186>> \o Fv, <<226, 130, 186>> \o Fd \o <<194, 186>>}
SmokeRoots == SmokeTerms
SmokeExpand(t) == {Case("Sprintf", f, <<t>>, <<>>) : f \in SmokeFormats} \cup {Case("Sprint", <<>>, <<t>>, <<>>)}
                  \cup {Case("Sprint", <<>>, <<t>>, <<>>), Case("Sprint", <<>>, <<TInt(90, 1), t, TStr(91, P(91)), t>>, <<>>),
                        Case("Sprintln", <<>>, <<t, TInt(90, 1), t>>, <<>>), Case("Sprintln", <<>>, <<>>, <<>>),
                        Case("Sprintf", Fv, <<t, t>>, <<>>), Case("Sprintf", <<A>>, <<t>>, <<>>), Case("Errorf", Fw \o Fw, <<t, t>>, <<>>),
                        Case("Errorf", Fw, <<t>>, <<>>), Case("Errorf", <<A>> \o Fv, <<t>>, <<>>)}

---------------------------------------------------------------------------
\* shared vocabulary of the systematic slices

\* leaves with id i (and i+1 for an inner term): what a value can be as far as classification goes
UStr(i)   == TStr(i, P(i))
UInt(i)   == TInt(i, 3 + i)
SVObj(i)  == TObj(i, {"SV"}, <<>>, <<>>, <<>>, <<>>)
SVStr(i)  == TObj(i, {"SV", "ST"}, <<>>, <<>>, P(i), <<>>)
RegObj(i) == TObj(i, {"REG"}, <<>>, <<>>, <<>>, <<>>)
SMObj(i)  == TObj(i, {"SM"}, <<>>, <<>>, P(i), <<>>)
StObj(i)  == TObj(i, {"ST"}, <<>>, <<>>, P(i), <<>>)
ErObj(i)  == TObj(i, {"ER"}, <<>>, <<>>, P(i), <<>>)
\* a SafeValue that is also a SafeFormatter calling back into the printer (exercises nested printers under an override)
SVSF(i)   == TObj(i, {"SV", "SF"}, <<SSafeString(P(600 + i)), SPrint(<<TSafe(i + 2, TInt(i + 1, 5))>>)>>, <<>>, <<>>, <<>>)
\* a SafeFormatter that emits numbers through the typed safe methods of the printer
SFNum(i)  == TObj(i, {"SF"}, <<SSafeInt(i + 1, 12), SSafeString(<<58>>), SSafeUint(i + 2, 7), SSafeString(<<58>>), SSafeFloat(i + 3)>>, <<>>, <<>>, <<>>)
SafeStr(i) == TSafe(i, TStr(i + 1, P(i + 1)))
SafeInt(i) == TSafe(i, TInt(i + 1, 4 + i))
Leaf(kind, i) == CASE kind = "ustr" -> UStr(i) [] kind = "uint" -> UInt(i) [] kind = "sv" -> SVObj(i)
                   [] kind = "svstr" -> SVStr(i) [] kind = "reg" -> RegObj(i) [] kind = "sm" -> SMObj(i)
                   [] kind = "st" -> StObj(i) [] kind = "er" -> ErObj(i) [] kind = "nil" -> TNil(i)
                   [] kind = "safestr" -> SafeStr(i) [] kind = "safeint" -> SafeInt(i)
                   [] kind = "bool" -> TBool(i) [] kind = "float" -> TFloat(i) [] kind = "svsf" -> SVSF(i)
                   [] kind = "sstr" -> TSStr(i, P(i)) [] kind = "complex" -> TComplex(i) [] kind = "sfnum" -> SFNum(i)
                   \* classified twice over: Safe(SafeValue), Unsafe(SafeValue), a registered type that is also a SafeValue;
                   \* a registered Stringer handed over as a reflect.Value
                   [] kind = "safesv" -> TSafe(i, SVStr(i + 1)) [] kind = "unsafesv" -> TUnsafe(i, SVStr(i + 1))
                   [] kind = "regsv" -> TObj(i, {"REG", "SV", "ST"}, <<>>, <<>>, P(i), <<>>)
                   [] kind = "rvregst" -> TRValue(i, TObj(i + 1, {"REG", "ST"}, <<>>, <<>>, P(i + 1), <<>>))
                   [] kind = "rstr" -> TRStr(i, P(i)) [] kind = "gs" -> TObj(i, {"GS", "ST"}, <<>>, <<>>, P(i), <<>>)
                   [] kind = "rv" -> TRValue(i, UStr(i + 1)) [] kind = "rvsv" -> TRValue(i, SVStr(i + 1))
                   [] kind = "rvsafe" -> TRValue(i, SafeStr(i + 1)) [] kind = "rvslice" -> TRValue(i, TSlice(i + 1, <<UStr(i + 2), SVObj(i + 3)>>))
LeafKinds  == {"ustr", "uint", "sv", "svstr", "reg", "sm", "st", "er", "nil", "safestr", "safeint", "bool", "float", "svsf",
               "rv", "rvsv", "rvsafe", "rvslice", "rstr", "gs", "sstr", "complex", "sfnum", "safesv", "unsafesv", "regsv", "rvregst"}
QLeafKinds == {"ustr", "uint", "sv", "svstr", "reg", "nil", "safestr", "st", "svsf", "rvsv", "rstr", "gs", "sstr", "complex", "sfnum",
               "safesv", "unsafesv", "regsv", "rvregst"}

\* container shapes around two leaves a (ids 10..) and b (ids 20..); container ids 30..
Shape(sh, a, b) ==
  CASE sh = "top"     -> <<a>>
    [] sh = "two"     -> <<a, b>>
    [] sh = "slice"   -> <<TSlice(30, <<a, b>>)>>
    [] sh = "mapval"  -> <<TMap(30, <<TInt(31, 1), a, TInt(32, 2), b>>)>>
    [] sh = "mapkey"  -> <<TMap(30, <<a, TInt(31, 1)>>)>>
    [] sh = "structEE" -> <<TStruct(30, <<a, b>>, <<FALSE, FALSE>>)>>
    [] sh = "structEu" -> <<TStruct(30, <<a, b>>, <<FALSE, TRUE>>)>>
    [] sh = "ptr"     -> <<TPtrTo(33, TStruct(30, <<a, b>>, <<FALSE, TRUE>>))>>
    [] sh = "deep"    -> <<TSlice(30, <<TSlice(34, <<a>>), TStruct(35, <<b>>, <<FALSE>>)>>)>>
    [] sh = "iface"   -> <<TStruct(30, <<TSlice(34, <<a, TNil(36)>>), b>>, <<TRUE, FALSE>>)>>
    [] sh = "safestruct" -> <<TSafe(37, TStruct(30, <<a, b, UInt(38)>>, <<FALSE, FALSE, FALSE>>))>>
    [] sh = "safeslice"  -> <<TSafe(37, TSlice(30, <<a, b>>))>>
    \* a struct type registered as safe: by value, behind a pointer, inside a slice
    [] sh = "regstruct"  -> <<TRegStruct(30, <<a, b>>)>>
    [] sh = "ptrreg"     -> <<TPtrTo(33, TRegStruct(30, <<a, b>>))>>
    [] sh = "inreg"      -> <<TSlice(34, <<TRegStruct(30, <<a, b>>), UInt(38)>>)>>
Shapes  == {"top", "two", "slice", "mapval", "mapkey", "structEE", "structEu", "ptr", "deep", "iface", "safestruct", "safeslice",
            "regstruct", "ptrreg", "inreg"}
QShapes == {"top", "two", "slice", "mapval", "structEu", "deep", "safestruct", "ptrreg"}

F6v == <<37, 54, 118>>   Fm6v == <<37, 45, 54, 118>>   F06d == <<37, 48, 54, 100>>  Fx2 == <<37, 120>>
Around(f) == <<A, 32>> \o f \o <<32, A>>
TwoFmt(f) == <<120, 61>> \o f \o <<32, 121, 61>> \o f                   \* "x=%v y=%v"
ClsFormats  == {Fv, FplusV, FsharpV, F6v, Fm6v, Fs, Fd, Fx, Fq, FT}
QClsFormats == {Fv, FplusV, FsharpV, F6v, Fd}

\* ---- slice "cls" (C05, C02, C16): classification of leaves at top level and inside containers
\* (a reflect.Value is modelled as an operand only, not as an element of a container: there fmt prints the struct)
IsRV(kind) == kind \in {"rv", "rvsv", "rvsafe", "rvslice", "rvregst"}
ClsRoots == {r \in [sh : IF Slice = "cls" THEN Shapes ELSE QShapes, ka : IF Slice = "cls" THEN LeafKinds ELSE QLeafKinds] :
               IsRV(r.ka) => r.sh \in {"top", "two"}}
ClsExpand(r) ==
  LET kinds == IF Slice = "cls" THEN LeafKinds ELSE QLeafKinds
      fmts  == IF Slice = "cls" THEN ClsFormats ELSE QClsFormats
      kbs   == IF r.sh \in {"top", "mapkey"} THEN {"nil"} ELSE {k \in kinds : IsRV(k) => r.sh = "two"}
  IN UNION {
       LET ts == Shape(r.sh, Leaf(r.ka, 10), Leaf(kb, 20)) IN
         {Case("Sprintf", IF Len(ts) = 2 THEN TwoFmt(f) ELSE Around(f), ts, <<>>) : f \in fmts}
         \cup {Case("Sprint", <<>>, ts, <<>>), Case("Sprintln", <<>>, ts, <<>>)}
       : kb \in kbs }

\* ---- slice "wrap" (C06): Unsafe(x) / Safe(x) / nestings around every kind of x
PlainX(i) == {UStr(i), UInt(i), TNil(i), TBool(i), TSlice(i, <<UStr(i + 1), UInt(i + 2)>>),
              TStruct(i, <<UStr(i + 1), UInt(i + 2)>>, <<FALSE, TRUE>>), TMap(i, <<TInt(i + 1, 1), UStr(i + 2)>>),
              TPtrTo(i, TStruct(i + 1, <<UInt(i + 2)>>, <<FALSE>>)), StObj(i), ErObj(i),
              TObj(i, {"GS", "ST"}, <<>>, <<>>, P(i), <<>>), TObj(i, {}, <<>>, <<>>, <<>>, <<>>)}
\* values with a classification of their own (for the Unsafe side of C06)
ClassyX(i) == {SVObj(i), SVStr(i), RegObj(i), SMObj(i), SafeStr(i), TRStr(i, <<A>> \o StartM \o <<A + 1>> \o EndM),
               TSlice(i, <<SafeStr(i + 1), SVObj(i + 3), TRStr(i + 4, StartM \o <<A>> \o EndM)>>),
               TStruct(i, <<SafeStr(i + 1), RegObj(i + 3)>>, <<FALSE, TRUE>>),
               TObj(i, {"SF"}, <<SSafeString(P(600)), SUnsafeString(P(700)), SSafeInt(i + 1, 5)>>, <<>>, <<>>, <<>>),
               TObj(i, {"SF", "ST"}, <<SPrint(<<SafeStr(i + 1), UStr(i + 3)>>), SWrite(P(701))>>, <<>>, P(i), <<>>),
               TObj(i, {"SF", "FM"}, <<SPrintf(<<A>> \o Fv \o Fd, <<SafeStr(i + 1), UInt(i + 3)>>)>>, <<SWrite(P(702))>>, <<>>, <<>>),
               TObj(i, {"FM"}, <<>>, <<SWrite(P(702)), SDiscover, SSafeString(P(601)), SUnsafeString(P(703))>>, <<>>, <<>>),
               TObj(i, {"FM"}, <<>>, <<SDiscover, SPrint(<<SafeStr(i + 1), UStr(i + 3)>>)>>, <<>>, <<>>),               \* F3
               TObj(i, {"FM"}, <<>>, <<SDiscover, SPrintf(<<A>> \o Fd \o Fs, <<UInt(i + 1), SafeStr(i + 3)>>)>>, <<>>, <<>>), \* F3
               TObj(i, {"ER", "SV"}, <<>>, <<>>, P(i), <<>>),
               \* a Formatter that discovers the SafePrinter and prints operands written in the ambient mode
               \* (numbers with the space between them, nil, punctuation, a redactable)
               TObj(i, {"FM"}, <<>>, <<SDiscover, SPrint(<<UInt(i + 1), UInt(i + 2), TNil(i + 3), TSlice(i + 4, <<UInt(i + 5)>>), TRStr(i + 6, <<A>> \o StartM \o <<A>> \o EndM)>>)>>, <<>>, <<>>),
               TObj(i, {"FM"}, <<>>, <<SDiscover, SPrintf(<<A>> \o Fv \o <<A>> \o Fd, <<UStr(i + 1), UInt(i + 2)>>)>>, <<>>, <<>>),
               \* redactables whose content is opaque (secret under Unsafe): in typed and untyped containers
               TSlice(i, <<TRStr(i + 1, P(i + 1) \o StartM \o P(i + 2) \o EndM), UInt(i + 3)>>),
               TTSlice(i, <<TRStr(i + 1, P(i + 1) \o StartM \o P(i + 2) \o EndM), TRStr(i + 3, P(i + 3))>>),
               \* arrays: [2]RedactableString, [2]string, a pointer to [2]int, an array of uint8-kinded Stringers
               TTArray(i, <<TRStr(i + 1, P(i + 1) \o StartM \o P(i + 2) \o EndM), TRStr(i + 3, P(i + 3))>>),
               TTArray(i, <<UStr(i + 1), UStr(i + 2)>>), TPtrTo(i + 3, TTArray(i, <<UInt(i + 1), UInt(i + 2)>>)),
               TTArray(i, <<TObj(i + 1, {"ST", "U8"}, <<>>, <<>>, P(i + 1), <<>>), TObj(i + 2, {"ST", "U8"}, <<>>, <<>>, P(i + 2), <<>>)>>),
               TStruct(i, <<TRStr(i + 1, P(i + 1)), SafeStr(i + 2), UStr(i + 4)>>, <<FALSE, FALSE, FALSE>>),
               TObj(i, {"GS", "ST"}, <<>>, <<>>, P(i), <<>>)}
WrapKinds == {"U", "S", "US", "SU", "UUS", "SSU", "USU", "inU", "inS", "SstU", "SrvU", "UstS", "UrvS"}
Wrapped(w, x) ==
  CASE w = "U"   -> TUnsafe(51, x)
    [] w = "S"   -> TSafe(51, x)
    [] w = "US"  -> TUnsafe(52, TSafe(51, x))
    [] w = "SU"  -> TSafe(52, TUnsafe(51, x))
    [] w = "UUS" -> TUnsafe(53, TUnsafe(52, TSafe(51, x)))
    [] w = "SSU" -> TSafe(53, TSafe(52, TUnsafe(51, x)))
    [] w = "USU" -> TUnsafe(53, TSafe(52, TUnsafe(51, x)))
    [] w = "inU" -> TUnsafe(53, TSlice(52, <<x, TSafe(54, TInt(55, 9))>>))
    [] w = "inS" -> TSafe(53, TSlice(52, <<x, TUnsafe(54, TInt(55, 9))>>))
    \* the inner wrapper is met by the reflection walk (interface-typed field) or sits behind a reflect.Value
    [] w = "SstU" -> TSafe(53, TStruct(52, <<TUnsafe(51, x), UStr(56)>>, <<FALSE, FALSE>>))
    [] w = "SrvU" -> TSafe(53, TRValue(52, TUnsafe(51, x)))
    [] w = "UstS" -> TUnsafe(53, TStruct(52, <<TSafe(51, x), UStr(56)>>, <<FALSE, FALSE>>))
    [] w = "UrvS" -> TUnsafe(53, TRValue(52, TSafe(51, x)))
WrapFormats == {Fv, Fs, Fd, FplusV, FsharpV, Fq, Fx, F6v, FT}
WrapRoots == (PlainX(60) \cup ClassyX(60)) \X WrapKinds
\* around the plain values (whose characters are compared with fmt's): precision alone, width and precision, flags --
\* directives that the wrappers' Format methods have to hand on to fmt unchanged
WrapFormatsPlain == {<<37, 46, 50, 118>>, <<37, 46, 51, 115>>, <<37, 46, 52, 100>>, <<37, 56, 46, 51, 115>>, <<37, 45, 56, 118>>,
                     <<37, 48, 56, 100>>, <<37, 32, 100>>, <<37, 43, 100>>, <<37, 35, 120>>, <<37, 43, 113>>}
WrapExpand(r) == {Case("Sprintf", Around(f), <<Wrapped(r[2], r[1])>>, <<>>) :
                    f \in WrapFormats \cup (IF r[1] \in PlainX(60) THEN WrapFormatsPlain ELSE {})}
                 \cup {Case("Sprint", <<>>, <<Wrapped(r[2], r[1])>>, <<>>)}

\* ---- slice "bytes" (C01, C03): concrete payload bytes in every position that reaches the buffer
A6 == {226, 128, 185, 186, 97, 10}
Pay(nmax) == UNION {[1..k -> A6] : k \in 0..nmax}
BytePos(p, q) == {
  <<Fv \o Fv, <<TStr(1, p), TStr(2, q)>>>>, <<Fs \o <<A>> \o Fv, <<TStr(1, p), TSafe(3, TStr(2, q))>>>>,
  <<p \o Fv \o q, <<TStr(1, <<A>>)>>>>, <<p \o Fv \o q, <<TUnsafe(2, TStr(1, <<A>>))>>>>,
  <<Fv, <<TSlice(3, <<TStr(1, p), TStr(2, q)>>)>>>>,
  <<Fv, <<TObj(1, {"ST"}, <<>>, <<>>, p, <<>>)>>>>, <<Fv \o Fv, <<TObj(1, {"ER"}, <<>>, <<>>, p, <<>>), TObj(2, {"SM"}, <<>>, <<>>, q, <<>>)>>>>,
  <<Fv, <<TObj(1, {"SF"}, <<SSafeString(p), SUnsafeString(q), SSafeString(p)>>, <<>>, <<>>, <<>>)>>>>,
  <<Fv, <<TObj(1, {"SF"}, <<SUnsafeString(p), SWrite(q), SPrint(<<TStr(2, p)>>)>>, <<>>, <<>>, <<>>)>>>>,
  <<Fv, <<TObj(1, {"FM"}, <<>>, <<SWrite(p), SWrite(q)>>, <<>>, <<>>)>>>>,
  <<Fv \o q, <<TObj(1, {"ST"}, <<>>, <<>>, <<>>, <<TStr(2, p)>>)>>>>,
  <<Fd \o q, <<TStr(1, p)>>>>, <<Fv, <<TStr(1, p), TStr(2, q)>>>>,
  <<Fv, <<TMap(3, <<TStr(1, p), TStr(2, q)>>)>>>>, <<FplusV, <<TStruct(3, <<TStr(1, p), TStr(2, q)>>, <<FALSE, TRUE>>)>>>>,
  <<Fv \o Fv, <<TRStr(1, StartM \o <<A>> \o EndM), TStr(2, p)>>>>,
  \* text after a redactable operand: literal, a declared-safe string, a sibling field under Safe()
  <<Fv \o q \o Fs, <<TRStr(1, StartM \o <<A>> \o EndM), TSafe(3, TStr(2, p))>>>>, <<q \o Fv \o p, <<TRBytes(1, <<A>> \o StartM \o <<A>> \o EndM)>>>>,
  <<FplusV \o q, <<TSafe(4, TStruct(3, <<TRStr(1, StartM \o <<A>> \o EndM), TStr(2, p)>>, <<FALSE, FALSE>>))>>>>,
  <<Fv \o q, <<TSlice(3, <<TRStr(1, <<A>>), TSafe(4, TStr(2, p))>>)>>>>,
  \* a redactable that ends in a truncated sequence as the last thing printed; a literal ending in a rune whose last byte is BA
  <<p \o Fv, <<TRStr(1, StartM \o <<A>> \o EndM \o <<A, 226>>)>>>>, <<Fv \o Fv, <<TStr(1, p), TRBytes(2, <<A, 226, 128>>)>>>>,
  <<q \o <<194, 186>> \o Fv, <<TStr(1, p)>>>>, <<<<226, 130, 186>> \o Fv \o RuneErrorBytes \o Fv, <<TStr(1, p), TStr(2, q)>>>>, <<Fv \o Fv, <<TStr(2, p), TRStr(1, StartM \o <<A>> \o EndM \o <<NL>>)>>>>
}
\* longer payloads that force the escaper to rewrite AND end in a truncated marker
SpicyPay == {<<NL, 226, 128>>, StartM \o <<226, 128>>, <<A, NL, 226>>, EndM \o <<226>>}
BytesRoots == Pay(IF Slice = "bytes" THEN 2 ELSE 1) \cup SpicyPay
BytesExpand(p) == UNION {{Case("Sprintf", x[1], x[2], <<>>) : x \in BytePos(p, q)} : q \in Pay(IF Slice = "bytes" THEN 2 ELSE 1)}

\* ---- slice "panic" (C11): user methods that panic at every point, every payload kind, every context
PanPayloads == {TStr(80, P(80)), TInt(80, 8), ErObj(80), TObj(80, {"ST"}, <<>>, <<>>, <<>>, <<TStr(81, P(81))>>),
                TObj(80, {"SF"}, <<SUnsafeString(P(82))>>, <<>>, <<>>, <<>>), TSafe(83, TStr(80, P(80)))}
PanObjs(pl) == {
  TObj(1, {"ST"}, <<>>, <<>>, <<>>, <<pl>>), TObj(1, {"ER"}, <<>>, <<>>, <<>>, <<pl>>), TObj(1, {"GS", "ST"}, <<>>, <<>>, <<>>, <<pl>>),
  TObj(1, {"SM"}, <<>>, <<>>, <<>>, <<pl>>), TObj(1, {"SV", "ST"}, <<>>, <<>>, <<>>, <<pl>>),
  TObj(1, {"SF"}, <<SPanic(pl)>>, <<>>, <<>>, <<>>),
  TObj(1, {"SF"}, <<SSafeString(P(600)), SPanic(pl)>>, <<>>, <<>>, <<>>),
  TObj(1, {"SF"}, <<SSafeString(P(600)), SUnsafeString(P(700)), SPanic(pl), SSafeString(P(601))>>, <<>>, <<>>, <<>>),
  TObj(1, {"SF"}, <<SUnsafeString(P(700)), SPrint(<<UStr(2)>>), SPanic(pl)>>, <<>>, <<>>, <<>>),
  TObj(1, {"SF"}, <<SSafeString(P(600)), SPrint(<<TObj(2, {"SF"}, <<SUnsafeString(P(701)), SPanic(pl)>>, <<>>, <<>>, <<>>)>>), SSafeString(P(601))>>, <<>>, <<>>, <<>>),
  TObj(1, {"SF"}, <<SPrintf(<<A>> \o Fv, <<TObj(2, {"ST"}, <<>>, <<>>, <<>>, <<pl>>)>>), SSafeString(P(601))>>, <<>>, <<>>, <<>>),
  \* a nested Print whose first write is unsafe (it continues the envelope the outer printer has just closed), then a
  \* Stringer that panics: with a payload that panics while printed the panic crosses the nested printer (F10)
  TObj(1, {"SF"}, <<SPrint(<<UStr(2), TObj(3, {"ST"}, <<>>, <<>>, <<>>, <<pl>>)>>), SSafeString(P(601))>>, <<>>, <<>>, <<>>),
  TObj(1, {"SF"}, <<SPrintf(Fs \o Fv, <<UStr(2), TObj(3, {"ST"}, <<>>, <<>>, <<>>, <<pl>>)>>)>>, <<>>, <<>>, <<>>),
  TObj(1, {"FM"}, <<>>, <<SWrite(P(702)), SPanic(pl)>>, <<>>, <<>>),
  TObj(1, {"FM"}, <<>>, <<SDiscover, SSafeString(P(600)), SPanic(pl)>>, <<>>, <<>>),
  TObj(1, {"ST", "NILP"}, <<>>, <<>>, <<>>, <<>>), TObj(1, {"SF", "NILP"}, <<>>, <<>>, <<>>, <<>>), TObj(1, {"ER", "FM", "NILP"}, <<>>, <<>>, <<>>, <<>>)
}
PanTwin == TObj(97, {"ST"}, <<>>, <<>>, <<>>, <<TStr(98, P(98))>>)        \* a second panicking operand in the same call
PanCtx(o) == {<<o>>, <<TSafe(90, o)>>, <<TUnsafe(90, o)>>, <<TSlice(91, <<UInt(92), o, UStr(93)>>)>>,
              <<TSlice(91, <<o, PanTwin>>)>>, <<TStruct(91, <<PanTwin, o>>, <<FALSE, FALSE>>)>>,
              <<TStruct(91, <<o, UStr(93)>>, <<FALSE, TRUE>>)>>, <<TStruct(91, <<UStr(93), o>>, <<FALSE, TRUE>>)>>}
PanicRoots == PanPayloads
PanicExpand(pl) == UNION {UNION {{Case("Sprintf", Around(f), ts, <<>>) : f \in {Fv, Fd, FsharpV, F6v}}
                                  \cup {Case("Sprint", <<>>, <<UInt(95)>> \o ts \o <<UStr(96)>>, <<>>)}
                                 : ts \in PanCtx(o)} : o \in PanObjs(pl)}
                   \* no literal between an unsafe operand and the panicking one, nor after it
                   \cup {Case("Sprintf", Fs \o Fv \o Fs, <<UStr(94), o, UStr(96)>>, <<>>) : o \in PanObjs(pl)}

\* ---- slice "errorf" (C15): HelperForErrorf with 0..3 %w directives and every operand class
FwIdx1 == <<37, 91, 49, 93, 119>>   FwIdx2 == <<37, 91, 50, 93, 119>>   F5w == <<37, 53, 119>>
FplusW == <<37, 43, 119>>           FsharpW == <<37, 35, 119>>          Fcolon == <<58>>
FstarW == <<37, 42, 119>>   FpstarW == <<37, 46, 42, 119>>
ErrDirs  == {Fw, Fv, Fd, FwIdx1, FwIdx2, F5w, FplusW, FsharpW, FstarW, FpstarW}
ErrDirs2 == {Fw, Fv, Fd, FwIdx1, F5w, FstarW}
ErrFormats == ErrDirs \cup {x \o Fcolon \o y : x \in ErrDirs, y \in ErrDirs}
              \cup {x \o Fcolon \o y \o Fcolon \o z : x \in {Fw, Fv}, y \in {Fw, Fv}, z \in {Fw, Fv}}
QErrFormats == ErrDirs2 \cup {x \o Fcolon \o y : x \in ErrDirs2, y \in ErrDirs2} \cup {Fw \o Fw \o Fw, FsharpW, FplusW}
ErrOperand(kind, i) ==
  CASE kind = "er"     -> ErObj(i)
    \* (its Format method shows the verb it was called with: a correctly used %w must reach it as %v)
    [] kind = "erfm"   -> TObj(i, {"ER", "FM"}, <<>>, <<SWrite(P(i + 5)), SWriteVerb, SWriteFlags>>, P(i), <<>>)
    [] kind = "erempty" -> TObj(i, {"ER"}, <<>>, <<>>, <<>>, <<>>)                  \* an error whose message is empty
    [] kind = "ersf"   -> TObj(i, {"ER", "SF"}, <<SSafeString(P(600 + i)), SUnsafeString(P(700 + i))>>, <<>>, P(i), <<>>)
    [] kind = "ersm"   -> TObj(i, {"ER", "SM"}, <<>>, <<>>, P(i), <<>>)
    \* a SafeFormatter (not an error) that itself prints an error with %w through the printer it was given: the nested
    \* printer does not wrap errors, so that %w is a bad verb whatever the caller is doing
    [] kind = "sfw"    -> TObj(i, {"SF"}, <<SSafeString(<<A>>), SPrintf(Fw, <<ErObj(i + 3)>>)>>, <<>>, <<>>, <<>>)
    [] kind = "safe"   -> TSafe(i, ErObj(i + 1))
    [] kind = "unsafe" -> TUnsafe(i, ErObj(i + 1))
    [] kind = "ernil"  -> TObj(i, {"ER", "NILP"}, <<>>, <<>>, <<>>, <<>>)
    [] kind = "nil"    -> TNil(i)
    [] kind = "int"    -> UInt(i)
    [] kind = "str"    -> UStr(i)
    [] kind = "st"     -> StObj(i)
    [] kind = "erpan"  -> TObj(i, {"ER"}, <<>>, <<>>, <<>>, <<TStr(i + 1, P(i + 1))>>)
    [] kind = "struct" -> TStruct(i, <<UInt(i + 1), UStr(i + 2)>>, <<FALSE, TRUE>>)
    [] kind = "stpan"  -> TObj(i, {"ST"}, <<>>, <<>>, <<>>, <<TStr(i + 1, P(i + 1))>>)      \* a Stringer whose String() panics
    \* pre-redacted operands: inserted as they are whatever the verb (F9: also under %w)
    [] kind = "rstr"   -> TRStr(i, P(i))
    [] kind = "rbytes" -> TRBytes(i, P(i))
ErrKinds  == {"er", "erfm", "ersf", "ersm", "sfw", "stpan", "safe", "unsafe", "ernil", "nil", "int", "str", "st", "erpan", "struct", "rstr", "rbytes", "erempty"}
QErrKinds == {"er", "erfm", "ersf", "ersm", "sfw", "ernil", "erpan", "stpan", "safe", "unsafe", "nil", "int", "str", "st", "struct", "rstr", "rbytes", "erempty"}
ErrRoots == LET ks == IF Slice = "errorf" THEN ErrKinds ELSE QErrKinds IN
            {<<>>} \cup {<<ErrOperand(k1, 10)>> : k1 \in ks} \cup {<<ErrOperand(k1, 10), ErrOperand(k2, 20)>> : k1 \in ks, k2 \in ks}
\* (objects are named ints in the harness: '*' would read their handle as a width; kept out of star formats)
ErrExpand(ts) == {Case("Errorf", f, ts, <<>>) : f \in {g \in (IF Slice = "errorf" THEN ErrFormats ELSE QErrFormats) :
                                                          Contains(g, Star) => \A i \in 1..Len(ts) : ts[i].k # "obj"}}

\* ---- slice "hook" (C17): error operands of every capability mix in every position, with a hook installed
HookErr(kind, i) ==
  CASE kind = "er"    -> ErObj(i)
    [] kind = "erst"  -> TObj(i, {"ER", "ST"}, <<>>, <<>>, P(i), <<>>)
    [] kind = "erfm"  -> TObj(i, {"ER", "FM"}, <<>>, <<SWrite(P(i + 5))>>, P(i), <<>>)
    [] kind = "ersf"  -> TObj(i, {"ER", "SF"}, <<SSafeString(P(600 + i)), SUnsafeString(P(700 + i))>>, <<>>, P(i), <<>>)
    [] kind = "ersm"  -> TObj(i, {"ER", "SM"}, <<>>, <<>>, P(i), <<>>)
    [] kind = "ergs"  -> TObj(i, {"ER", "GS"}, <<>>, <<>>, P(i), <<>>)
    [] kind = "ersv"  -> TObj(i, {"ER", "SV"}, <<>>, <<>>, P(i), <<>>)
    [] kind = "erreg" -> TObj(i, {"ER", "REG"}, <<>>, <<>>, P(i), <<>>)
    [] kind = "ernil" -> TObj(i, {"ER", "NILP"}, <<>>, <<>>, <<>>, <<>>)
    [] kind = "erpan" -> TObj(i, {"ER"}, <<>>, <<>>, <<>>, <<TStr(i + 1, P(i + 1))>>)
    [] kind = "st"    -> StObj(i)
    [] kind = "stpanerr" -> TObj(i, {"ST"}, <<>>, <<>>, <<>>, <<ErObj(i + 5)>>)
HookKinds == {"er", "erst", "erfm", "ersf", "ersm", "ergs", "ersv", "erreg", "ernil", "erpan", "st", "stpanerr"}
HookPos(pos, e) ==
  CASE pos = "top"     -> <<e>>
    [] pos = "safe"    -> <<TSafe(40, e)>>
    [] pos = "unsafe"  -> <<TUnsafe(40, e)>>
    [] pos = "slice"   -> <<TSlice(40, <<UInt(41), e>>)>>
    [] pos = "mapval"  -> <<TMap(40, <<TInt(41, 1), e>>)>>
    [] pos = "mapkey"  -> <<TMap(40, <<e, UInt(41)>>)>>
    [] pos = "fieldE"  -> <<TStruct(40, <<e, UInt(41)>>, <<FALSE, FALSE>>)>>
    [] pos = "fieldu"  -> <<TStruct(40, <<UInt(41), e>>, <<FALSE, TRUE>>)>>
    [] pos = "ptr"     -> <<TPtrTo(42, TStruct(40, <<e>>, <<FALSE>>))>>
    [] pos = "inUnsafe" -> <<TUnsafe(43, TSlice(40, <<e>>))>>
    \* under Unsafe(), after a sibling that is declared safe
    [] pos = "inUnsafe2" -> <<TUnsafe(43, TSlice(40, <<SVObj(44), e>>))>>
    [] pos = "inUnsafe3" -> <<TUnsafe(43, TStruct(40, <<SafeStr(44), e>>, <<FALSE, FALSE>>))>>
    \* a statically typed slice of uint8-kinded errors: elements still go through method dispatch for v / d
    [] pos = "u8slice"  -> <<TTSlice(40, <<TObj(7, {"ER", "U8"}, <<>>, <<>>, P(7), <<>>), TObj(8, {"ER", "U8"}, <<>>, <<>>, P(8), <<>>)>>)>>
HookPositions == {"top", "safe", "unsafe", "slice", "mapval", "mapkey", "fieldE", "fieldu", "ptr", "inUnsafe", "inUnsafe2", "inUnsafe3", "u8slice"}
HookRoots == HookKinds \X HookPositions
HookExpand(r) == LET ts == HookPos(r[2], HookErr(r[1], 10)) IN
                 \* (two operands: a bad verb on nil, a bad verb on a string, then the error)
                 {Case("Sprintf", Fd \o <<124>> \o f, <<TNil(46)>> \o ts, <<>>) : f \in {Fv, Fs}} \cup
                 {Case("Sprintf", FZ \o <<124>> \o Fv, <<UStr(47)>> \o ts, <<>>)} \cup
                 {Case("Sprintf", Around(f), ts, <<>>) : f \in {Fv, Fs, Fd, Fq, Fx, FplusV, FsharpV, F6v}}
                 \cup {Case("Sprint", <<>>, ts, <<>>), Case("Errorf", Around(Fw), ts, <<>>), Case("Errorf", Fw \o Fw, ts \o ts, <<>>)}
                 \* %w spelled with a flag, a width, an argument index
                 \* (not %+w on the statically typed uint8 slice: the plus flag inside that bad-verb report is not modelled)
                 \cup {Case("Errorf", Around(f), ts, <<>>) : f \in (IF r[2] = "u8slice" THEN {F5w, FwIdx1} ELSE {FplusW, F5w, FwIdx1})}

\* ---- slice "dir" (C01 C02 C04 C05): every form of directive around operands of every class
DStar   == <<37, 42, 100>>            \* %*d
DmStar  == <<37, 45, 42, 118>>        \* %-*v
DpStar  == <<37, 46, 42, 118>>        \* %.*v
DIdx21  == <<37, 91, 50, 93, 118, 32, 37, 91, 49, 93, 118>>   \* %[2]v %[1]v
DIdx3   == <<37, 91, 51, 93, 118>>    \* %[3]v
DIdxW   == <<37, 91, 50, 93, 42, 91, 49, 93, 118>>            \* %[2]*[1]v
DTwo    == Fv \o <<124>> \o Fv        \* %v|%v
DThree  == Fv \o <<124>> \o Fv \o <<124>> \o Fd
DNoVerb == Fv \o <<37>>               \* %v%
DBang   == <<37, 33>> \o Fv           \* %!%v
DPct    == <<37, 37>> \o Fv \o <<37, 37>>
DIdx0   == <<37, 91, 48, 93, 118>>                          \* %[0]v
DIdx0S  == <<37, 91, 48, 93, 42, 100>>                      \* %[0]*d
DIdx0P  == <<37, 46, 91, 48, 93, 42, 100>>                  \* %.[0]*d
DIdx10  == <<37, 91, 49, 93, 100, 32, 37, 91, 48, 93, 118>> \* %[1]d %[0]v
DIdxSP  == <<37, 91, 49, 93, 42, 46, 50, 118>>              \* %[1]*.2v
\* (<<>>: the empty format -- every operand is surplus)
DPrec2s == <<37, 46, 50, 115>>   DPrec3v == <<37, 46, 51, 118>>       \* %.2s %.3v
DirFormats == {DPrec2s, DPrec3v, DStar, DmStar, DpStar, DIdx21, DIdx3, DIdxW, DTwo, DThree, DNoVerb, DBang, DPct, Fv, <<A>>, <<>>, FZ \o Fv,
               DIdx0, DIdx0S, DIdx0P, DIdx10, DIdxSP}
DirOperands == {UStr(10), UInt(10), SafeStr(10), SVObj(10), TNil(10), StObj(10), TInt(10, 6), TInt(10, -4), SafeInt(10), TRValue(10, UInt(11)), TUnsafe(10, UInt(11)),
                TSStr(10, P(10))}      \* a SafeString under widths and precisions (it is a string like any other to the directive)
DirOperands2 == {UStr(20), TInt(20, 5), SafeStr(20), TNil(20), RegObj(20), TSStr(20, P(20))}
DirRoots == DirFormats
\* (objects are named int types in the harness, so '*' would read their handle as a width: kept out of star formats)
DirOK(f, t) == ~(Contains(f, Star) /\ t.k = "obj")
DirExpand(f) == {Case("Sprintf", f, <<>>, <<>>)} \cup {Case("Sprintf", f, <<a>>, <<>>) : a \in {x \in DirOperands : DirOK(f, x)}}
                \cup {Case("Sprintf", f, <<a, b>>, <<>>) : a \in {x \in DirOperands : DirOK(f, x)}, b \in {x \in DirOperands2 : DirOK(f, x)}}
                \cup {Case("Sprintf", f, <<a, b, UStr(30)>>, <<>>) : a \in {UInt(10), TInt(10, 6), SafeStr(10)}, b \in {x \in DirOperands2 : DirOK(f, x)}}

\* ---- slice "rnd": RndN pseudo-random cases -- operand terms up to four levels deep over every constructor of the
\* term language, formats assembled from literals and directives.  A case is a PURE FUNCTION of (RndSeed, index), so a
\* run is reproducible; the systematic slices above cover classes, this one covers combinations nobody listed.
\* H: a small multiplicative hash (all intermediate values below 2^31: TLC integers are 32 bit); n < 200000, q < 1000.
H(n, q, s) == LET x == (n * 7919 + q * 104729 + s * 13 + RndSeed * 1299709) % 1000003
                  y == (x * 1103 + 12347) % 999983
              IN  (y * 2011 + q * 31 + s * 7) % 65521
PickOf(seq, h) == seq[(h % Len(seq)) + 1]

\* positions: operands 2..4, children of p are 3p-1, 3p, 3p+1 (four levels: up to 121); term id = 8 * position, the
\* ids 8p+1 .. 8p+7 (payloads, auxiliary terms) belong to the node
RId(p) == 8 * p
RLeafKinds == <<"ustr", "ustr", "uint", "uint", "nil", "bool", "float", "complex", "sstr", "rstr", "rstre", "rbytes", "rbytese", "sv", "svstr",
                "reg", "sm", "st", "st", "er", "er", "gs", "regsv", "erst", "smer", "stnilp", "ernilp", "chan", "func", "nilptr",
                "uintn", "empty", "nlstr", "mkstr", "fm", "sf", "sfnum", "stpan", "erpan", "safestr", "unsafeint", "safesv", "rvro">>
RLeaf(kind, i) ==
  CASE kind = "ustr" -> TStr(i, P(i))            [] kind = "uint" -> TInt(i, 3 + i)       [] kind = "nil" -> TNil(i)
    [] kind = "bool" -> TBool(i)                   [] kind = "float" -> TFloat(i)           [] kind = "complex" -> TComplex(i)
    [] kind = "sstr" -> TSStr(i, P(i))             [] kind = "uintn" -> TUint(i, 7)
    [] kind = "rstr" -> TRStr(i, P(i))             [] kind = "rbytes" -> TRBytes(i, P(i))
    [] kind = "rstre" -> TRStr(i, P(i) \o StartM \o P(i + 1) \o EndM \o <<A>>)
    [] kind = "rbytese" -> TRBytes(i, P(i) \o StartM \o P(i + 1) \o EndM)
    [] kind = "sv" -> TObj(i, {"SV"}, <<>>, <<>>, <<>>, <<>>)
    [] kind = "svstr" -> TObj(i, {"SV", "ST"}, <<>>, <<>>, P(i), <<>>)
    [] kind = "reg" -> TObj(i, {"REG"}, <<>>, <<>>, <<>>, <<>>)
    [] kind = "regsv" -> TObj(i, {"REG", "SV", "ST"}, <<>>, <<>>, P(i), <<>>)
    [] kind = "sm" -> TObj(i, {"SM"}, <<>>, <<>>, P(i), <<>>)
    [] kind = "st" -> TObj(i, {"ST"}, <<>>, <<>>, P(i), <<>>)
    [] kind = "er" -> TObj(i, {"ER"}, <<>>, <<>>, P(i), <<>>)
    [] kind = "gs" -> TObj(i, {"GS", "ST"}, <<>>, <<>>, P(i), <<>>)
    [] kind = "erst" -> TObj(i, {"ER", "ST"}, <<>>, <<>>, P(i), <<>>)
    [] kind = "smer" -> TObj(i, {"SM", "ER"}, <<>>, <<>>, P(i), <<>>)
    [] kind = "stnilp" -> TObj(i, {"ST", "NILP"}, <<>>, <<>>, P(i), <<>>)
    [] kind = "ernilp" -> TObj(i, {"ER", "NILP"}, <<>>, <<>>, P(i), <<>>)
    [] kind = "chan" -> TChan(i)                   [] kind = "func" -> TFunc(i)             [] kind = "nilptr" -> TNilPtr(i)
    [] kind = "empty" -> TStr(i, <<>>)             [] kind = "nlstr" -> TStr(i, <<A, NL, A>>)
    [] kind = "mkstr" -> TStr(i, StartM \o <<A>>)
    [] kind = "fm" -> TObj(i, {"FM"}, <<>>, <<SWrite(<<102>> \o P(i + 1)), SWriteVerb, SWriteFlags, SWriteStr(P(i + 2))>>, <<>>, <<>>)
    [] kind = "sf" -> TObj(i, {"SF"}, <<SSafeString(<<115>>), SUnsafeString(P(i + 1)), SSafeInt(i + 2, 12)>>, <<>>, <<>>, <<>>)
    [] kind = "sfnum" -> TObj(i, {"SF"}, <<SSafeInt(i + 1, 12), SSafeString(<<58>>), SSafeUint(i + 2, 7), SSafeFloat(i + 3)>>, <<>>, <<>>, <<>>)
    [] kind = "stpan" -> TObj(i, {"ST"}, <<>>, <<>>, <<>>, <<TStr(i + 1, P(i + 1))>>)
    [] kind = "erpan" -> TObj(i, {"ER"}, <<>>, <<>>, <<>>, <<TStr(i + 1, P(i + 1))>>)
    [] kind = "safestr" -> TSafe(i, TStr(i + 1, P(i + 1)))
    [] kind = "unsafeint" -> TUnsafe(i, TInt(i + 1, 5))
    [] kind = "safesv" -> TSafe(i, TObj(i + 1, {"SV", "ST"}, <<>>, <<>>, P(i + 1), <<>>))
    \* (a reflect.Value is modelled as an operand only: inside a container it is a struct of pointers)
    [] kind = "rvro" -> IF i <= 32 THEN TRValueRO(i, TRStr(i + 1, StartM \o <<A>> \o EndM \o P(i + 1))) ELSE TStr(i, P(i))
\* keys of a map[interface{}]interface{}: hashable, and ordered by fmt in a way the model knows (one key per map here)
RKeyKinds == <<"ustr", "uint", "sstr", "svstr", "st", "reg", "bool", "rstr", "er">>
\* element kinds of statically typed slices / arrays (all elements of one Go type)
RElemKinds == <<"rstr", "ustr", "sstr", "uint", "st", "er", "svstr", "reg", "rbytes">>
RInnerKinds == <<"safe", "unsafe", "safe", "unsafe", "slice1", "slice2", "slice3", "map1", "map2", "mapkey", "stE", "stu", "stEE", "stEu", "stuE",
                 "stuu", "stEuE", "stEEE", "regst", "ptrst", "ptrsl", "tslice", "tarray", "sfprint", "sfprintf", "fmprint", "stpanx", "rvalue">>

RECURSIVE RGen(_, _, _)
RGen(n, p, d) ==
  LET i == RId(p)  h == H(n, p, 0) IN
  IF d = 0 \/ h % 10 < 4 THEN RLeaf(PickOf(RLeafKinds, H(n, p, 1)), i)
  ELSE
    LET kind == PickOf(RInnerKinds, H(n, p, 2))
        c1 == RGen(n, 3 * p - 1, d - 1)  c2 == RGen(n, 3 * p, d - 1)  c3 == RGen(n, 3 * p + 1, d - 1)
        ek == PickOf(RElemKinds, H(n, p, 3))
    IN CASE kind = "safe" -> TSafe(i, c1)
         [] kind = "unsafe" -> TUnsafe(i, c1)
         [] kind = "slice1" -> TSlice(i, <<c1>>)
         [] kind = "slice2" -> TSlice(i, <<c1, c2>>)
         [] kind = "slice3" -> TSlice(i, <<c1, c2, c3>>)
         [] kind = "map1" -> TMap(i, <<TInt(i + 1, 1), c1>>)
         [] kind = "map2" -> TMap(i, <<TInt(i + 1, 1), c1, TInt(i + 2, 2), c2>>)
         [] kind = "mapkey" -> TMap(i, <<RLeaf(PickOf(RKeyKinds, H(n, p, 3)), RId(3 * p - 1)), c2>>)
         [] kind = "stE" -> TStruct(i, <<c1>>, <<FALSE>>)
         [] kind = "stu" -> TStruct(i, <<c1>>, <<TRUE>>)
         [] kind = "stEE" -> TStruct(i, <<c1, c2>>, <<FALSE, FALSE>>)
         [] kind = "stEu" -> TStruct(i, <<c1, c2>>, <<FALSE, TRUE>>)
         [] kind = "stuE" -> TStruct(i, <<c1, c2>>, <<TRUE, FALSE>>)
         [] kind = "stuu" -> TStruct(i, <<c1, c2>>, <<TRUE, TRUE>>)
         [] kind = "stEuE" -> TStruct(i, <<c1, c2, c3>>, <<FALSE, TRUE, FALSE>>)
         [] kind = "stEEE" -> TStruct(i, <<c1, c2, c3>>, <<FALSE, FALSE, FALSE>>)
         [] kind = "regst" -> TRegStruct(i, <<c1, c2>>)
         [] kind = "ptrst" -> TPtrTo(i, TStruct(i + 1, <<c1, c2>>, <<FALSE, TRUE>>))
         [] kind = "ptrsl" -> TPtrTo(i, TSlice(i + 1, <<c1, c2>>))
         [] kind = "tslice" -> TTSlice(i, <<RLeaf(ek, RId(3 * p - 1)), RLeaf(ek, RId(3 * p))>>)
         [] kind = "tarray" -> TTArray(i, <<RLeaf(ek, RId(3 * p - 1)), RLeaf(ek, RId(3 * p))>>)
         [] kind = "sfprint" -> TObj(i, {"SF"}, <<SSafeString(<<A>>), SPrint(<<c1, c2>>), SUnsafeString(P(i + 1))>>, <<>>, <<>>, <<>>)
         [] kind = "sfprintf" -> TObj(i, {"SF"}, <<SPrintf(<<A>> \o Fv \o <<32>> \o Fd, <<c1, c2>>), SSafeString(<<A>>)>>, <<>>, <<>>, <<>>)
         [] kind = "fmprint" -> TObj(i, {"FM"}, <<>>, <<SWrite(P(i + 1)), SDiscover, SPrint(<<c1>>)>>, <<>>, <<>>)
         \* String() panics with an arbitrary value (not nil: panic(nil) is a *runtime.PanicNilError since Go 1.21; not a
         \* value whose own method panics at once: the slices smoke and panic hold those)
         [] kind = "stpanx" -> TObj(i, {"ST"}, <<>>, <<>>, <<>>, <<IF c1.k = "nil" \/ c1.pan # <<>> THEN TStr(i + 1, P(i + 1)) ELSE c1>>)
         \* (a reflect.Value is modelled as an operand only)
         [] kind = "rvalue" -> IF p <= 4 THEN TRValue(i, c1) ELSE TSlice(i, <<c1>>)

RDirs == <<Fv, Fv, Fv, FplusV, FsharpV, Fs, Fs, Fd, Fd, Fx, Fq, FT, F6v, Fm6v, F06d, FZ, Fp,
           <<37, 32, 100>>, <<37, 43, 100>>, <<37, 46, 50, 118>>, <<37, 46, 49, 115>>, <<37, 35, 120>>, <<37, 88>>, <<37, 85>>, <<37, 99>>,
           <<37, 111>>, <<37, 98>>, <<37, 101>>, <<37, 103>>, <<37, 116>>, <<37, 51, 115>>, <<37, 45, 52, 113>>, <<37, 48, 53, 118>>,
           \* precisions that cut a string operand in the middle (also inside an envelope it may hold)
           <<37, 46, 54, 118>>, <<37, 46, 57, 115>>, <<37, 49, 50, 46, 56, 118>>>>
RLits == << <<>>, <<>>, <<A>>, <<32>>, <<A, 58>>, <<194, 186>>, <<37, 37>>, <<A, 32>> >>
RECURSIVE RFormat(_, _, _)
RFormat(n, j, m) == IF j > m THEN PickOf(RLits, H(n, 900 + j, 4))
                    ELSE PickOf(RLits, H(n, 900 + j, 4)) \o PickOf(RDirs, H(n, 900 + j, 5)) \o RFormat(n, j + 1, m)
RCase(n) ==
  LET m  == 1 + (H(n, 1, 6) % 3)                                 \* operands
      ts == [j \in 1..m |-> RGen(n, j + 1, 3)]
      e  == H(n, 1, 7) % 20
      \* directives: as many as operands; sometimes one more (MISSING), one fewer (EXTRA), an explicit index, a dangling %
      nd == CASE e = 12 -> m + 1 [] e = 13 -> m - 1 [] OTHER -> m
      f0 == RFormat(n, 1, nd)
      f  == CASE e = 14 -> f0 \o <<37>> [] e = 15 -> <<37, 91, 49, 93, 118, 32>> \o f0 [] e = 16 -> <<37, 91, 50, 93, 118>> \o f0 [] OTHER -> f0
  IN CASE e \in {0, 1} -> Case("Sprint", <<>>, ts, <<>>)
       [] e = 2 -> Case("Sprintln", <<>>, ts, <<>>)
       [] e \in {3, 4} -> Case("Errorf", Fw \o <<58, 32>> \o RFormat(n, 2, m), ts, <<>>)
       [] e = 5 -> Case("Errorf", RFormat(n, 1, m - 1) \o <<58, 32>> \o Fw, ts, <<>>)
       [] OTHER -> Case("Sprintf", f, ts, <<>>)
RChunk == 16
RndRoots == {<<"rnd", r>> : r \in 1..(RndN \div RChunk)}
RndExpand(r) == {RCase(n) : n \in ((r[2] - 1) * RChunk + 1)..(r[2] * RChunk)}

Roots     == CASE Slice = "smoke" -> SmokeRoots
               [] Slice \in {"cls", "qcls"} -> ClsRoots
               [] Slice = "wrap" -> WrapRoots
               [] Slice \in {"bytes", "qbytes"} -> BytesRoots
               [] Slice = "panic" -> PanicRoots
               [] Slice \in {"errorf", "qerrorf"} -> ErrRoots
               [] Slice = "hook" -> HookRoots
               [] Slice = "dir" -> DirRoots
               [] Slice = "rnd" -> RndRoots
Expand(r) == CASE Slice = "smoke" -> SmokeExpand(r)
               [] Slice \in {"cls", "qcls"} -> ClsExpand(r)
               [] Slice = "wrap" -> WrapExpand(r)
               [] Slice \in {"bytes", "qbytes"} -> BytesExpand(r)
               [] Slice = "panic" -> PanicExpand(r)
               [] Slice \in {"errorf", "qerrorf"} -> ErrExpand(r)
               [] Slice = "hook" -> HookExpand(r)
               [] Slice = "dir" -> DirExpand(r)
               [] Slice = "rnd" -> RndExpand(r)

---------------------------------------------------------------------------
VARIABLE root
allvars == <<c, lvl, root>>

\* (Init / Next / Spec over Roots and Expand live in PSpec.tla: a module that extends this one without needing them --
\*  MCCompose -- is spared TLC's start-up level analysis of three more definitions that reach every slice)

Run(k) == CASE k.e = "Sprintf"  -> Sprintf(k.f, k.ts)
            [] k.e = "Sprintln" -> Sprintln(k.ts)
            [] k.e = "Sprint"   -> Sprint(k.ts)
            [] k.e = "Errorf"   -> Errorf(k.f, k.ts)
            [] k.e = "Sprintfn" -> Sprintfn(k.scr)
=============================================================================
