// Package lib holds the model-free oracles and the plumbing shared by all
// conformance commands.  Nothing in this file calls into redact: these are
// independent re-statements of the vocabulary the properties are phrased in
// (well-formed, line-safe, envelopes, stripped text), so that a verdict never
// depends on the code under test judging itself.
package lib

import (
	"bytes"
	"unicode/utf8"
)

var (
	StartM    = []byte{0xE2, 0x80, 0xB9}
	EndM      = []byte{0xE2, 0x80, 0xBA}
	RedactedM = []byte("\xE2\x80\xB9\xC3\x97\xE2\x80\xBA")
)

// Chunk is one piece of a parsed redactable: Cls 'S' visible text, 'U' the
// content of one envelope.
type Chunk struct {
	Cls byte
	Txt []byte
}

func isStartAt(b []byte, i int) bool { return bytes.HasPrefix(b[i:], StartM) }
func isEndAt(b []byte, i int) bool   { return bytes.HasPrefix(b[i:], EndM) }

// Parse splits b into chunks; ok is false if the markers do not strictly
// alternate (nested start, stray end, unclosed envelope).
func Parse(b []byte) (chunks []Chunk, ok bool) {
	inEnv := false
	var cur []byte
	push := func(cls byte, force bool) {
		if len(cur) > 0 || force {
			chunks = append(chunks, Chunk{cls, cur})
		}
		cur = nil
	}
	for i := 0; i < len(b); {
		switch {
		case isStartAt(b, i):
			if inEnv {
				return chunks, false
			}
			push('S', false)
			inEnv = true
			i += 3
		case isEndAt(b, i):
			if !inEnv {
				return chunks, false
			}
			push('U', true)
			inEnv = false
			i += 3
		default:
			cur = append(cur, b[i])
			i++
		}
	}
	if inEnv {
		return chunks, false
	}
	push('S', false)
	return chunks, true
}

func WellFormed(b []byte) bool { _, ok := Parse(b); return ok }

// LineSafe: well-formed and no line feed inside any envelope.
func LineSafe(b []byte) bool {
	cs, ok := Parse(b)
	if !ok {
		return false
	}
	for _, c := range cs {
		if c.Cls == 'U' && bytes.IndexByte(c.Txt, '\n') >= 0 {
			return false
		}
	}
	return true
}

// ReplaceMarkers replaces each marker occurrence (byte level) by rep.
func ReplaceMarkers(b []byte, rep []byte) []byte {
	out := make([]byte, 0, len(b))
	for i := 0; i < len(b); {
		if isStartAt(b, i) || isEndAt(b, i) {
			out = append(out, rep...)
			i += 3
		} else {
			out = append(out, b[i])
			i++
		}
	}
	return out
}

func Strip(b []byte) []byte     { return ReplaceMarkers(b, nil) }
func EscapeAll(b []byte) []byte { return ReplaceMarkers(b, []byte{'?'}) }
func HasMarker(b []byte) bool   { return bytes.Contains(b, StartM) || bytes.Contains(b, EndM) }

// RedactRef is the byte-level reference of Redact (leftmost-first
// start [^start end]* end -> redacted marker).
func RedactRef(b []byte) []byte {
	out := make([]byte, 0, len(b))
	for i := 0; i < len(b); {
		if isStartAt(b, i) {
			j := i + 3
			for j < len(b) && !isStartAt(b, j) && !isEndAt(b, j) {
				j++
			}
			if j < len(b) && isEndAt(b, j) {
				out = append(out, RedactedM...)
				i = j + 3
				continue
			}
			out = append(out, StartM...)
			i += 3
			continue
		}
		out = append(out, b[i])
		i++
	}
	return out
}

// DeleteEnvelopes returns the visible text of a well-formed redactable.
func DeleteEnvelopes(b []byte) []byte {
	cs, _ := Parse(b)
	var out []byte
	for _, c := range cs {
		if c.Cls == 'S' {
			out = append(out, c.Txt...)
		}
	}
	return out
}

// EnvelopeText returns the concatenated content of all envelopes.
func EnvelopeText(b []byte) []byte {
	cs, _ := Parse(b)
	var out []byte
	for _, c := range cs {
		if c.Cls == 'U' {
			out = append(out, c.Txt...)
		}
	}
	return out
}

func NumEnvelopes(b []byte) int {
	cs, _ := Parse(b)
	n := 0
	for _, c := range cs {
		if c.Cls == 'U' {
			n++
		}
	}
	return n
}

// Norm drops empty chunks and merges adjacent chunks of the same class.
func Norm(cs []Chunk) []Chunk {
	var out []Chunk
	for _, c := range cs {
		if len(c.Txt) == 0 {
			continue
		}
		if n := len(out); n > 0 && out[n-1].Cls == c.Cls {
			out[n-1].Txt = append(append([]byte(nil), out[n-1].Txt...), c.Txt...)
			continue
		}
		out = append(out, Chunk{c.Cls, append([]byte(nil), c.Txt...)})
	}
	return out
}

func NormOf(b []byte) []Chunk { cs, _ := Parse(b); return Norm(cs) }

func ChunksEqual(a, b []Chunk) bool {
	if len(a) != len(b) {
		return false
	}
	for i := range a {
		if a[i].Cls != b[i].Cls || !bytes.Equal(a[i].Txt, b[i].Txt) {
			return false
		}
	}
	return true
}

// RenderChunks is the inverse of Parse.
func RenderChunks(cs []Chunk) []byte {
	var out []byte
	for _, c := range cs {
		if c.Cls == 'U' {
			out = append(out, StartM...)
			out = append(out, c.Txt...)
			out = append(out, EndM...)
		} else {
			out = append(out, c.Txt...)
		}
	}
	return out
}

func OnlyNL(b []byte) []byte {
	var out []byte
	for _, c := range b {
		if c == '\n' {
			out = append(out, c)
		}
	}
	return out
}

// LastRuneInvalid mirrors the test escape.go applies (DecodeLastRune = (RuneError,1)).
func LastRuneInvalid(b []byte) bool {
	r, s := utf8.DecodeLastRune(b)
	return s == 1 && r == utf8.RuneError
}

// PerLineOK: every line is well-formed by itself and redaction / stripping
// commute with splitting on line feeds (C03), using the given projections.
func PerLineOK(out []byte, redact, strip func([]byte) []byte) bool {
	lines := bytes.Split(out, []byte{'\n'})
	var rs, ss [][]byte
	for _, l := range lines {
		if !WellFormed(l) {
			return false
		}
		rs = append(rs, redact(l))
		ss = append(ss, strip(l))
	}
	return bytes.Equal(bytes.Join(rs, []byte{'\n'}), redact(out)) &&
		bytes.Equal(bytes.Join(ss, []byte{'\n'}), strip(out))
}
