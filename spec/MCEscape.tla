------------------------------ MODULE MCEscape ------------------------------
(***************************************************************************)
(* C10: the escape scanner on ALL byte strings made of at most MaxTok      *)
(* tokens (each individual byte of both markers, ordinary byte, space,     *)
(* line feed, '?', and the two whole markers), for every starting offset   *)
(* of the not-yet-escaped suffix, both line-splitting settings and both    *)
(* strip settings.                                                         *)
(***************************************************************************)
EXTENDS Buffer, TLC, Json

CONSTANTS MaxTok, Tokens, EmitOn
VARIABLES b, n
vars == <<b, n>>

\* (184 and 187: the last bytes of the code points next to the markers, U+2038 and U+203B -- a comparison that is too
\*  generous about the third byte escapes those as well)
E10 == {<<226>>, <<128>>, <<185>>, <<186>>, <<97>>, <<SP>>, <<NL>>, <<Q>>, StartM, EndM, RuneErrorBytes, <<194, 186>>, <<184>>, <<187>>, <<13>>}      \* (13: carriage return -- a byte like any other, not part of a line break)
E7  == {<<226>>, <<128>>, <<185>>, <<97>>, <<NL>>, StartM, EndM}

Init == b = <<>> /\ n = 0
Next == n < MaxTok /\ \E t \in Tokens : b' = b \o t /\ n' = n + 1
Spec == Init /\ [][Next]_vars

Esc(k, brk) == InternalEscape(b, k, brk, FALSE)
TailQ       == IF LastRuneInvalid(b) THEN <<Q>> ELSE <<>>

\* without line splitting: prefix untouched, suffix = EscapeMarkers(suffix), '?' iff dangling
InvNoBreak == \A k \in 0..Len(b) :
                Esc(k, FALSE) = Sub(b, 0, k) \o EscapeMarkers(From(b, k)) \o TailQ
\* idempotent: a second pass over the result changes nothing
InvIdem    == \A k \in 0..Len(b) :
                LET r == Esc(k, FALSE) IN InternalEscape(r, k, FALSE, FALSE) = r
\* EscapeBytes: the enveloped, line-split form
InvEscapeBytes ==
  LET e == EscapeBytes(b) IN
    /\ WellFormed(e) /\ LineSafe(e)
    /\ Strip(e) = EscapeMarkers(b) \o TailQ
    /\ DeleteEnvelopes(e) = OnlyOf(b, NL)
    /\ LET r == Redact(e) IN
         /\ OnlyOf(r, NL) = OnlyOf(b, NL)
         /\ LET cs == Parse(r).chunks IN
              \A i \in 1..Len(cs) : IF cs[i].cls = "U" THEN cs[i].txt = Cross
                                     ELSE cs[i].txt = OnlyOf(cs[i].txt, NL)
\* the same through the buffer, in both escaping modes, however the payload is split
InvSplit == \A k \in 0..Len(b) : \A m \in {MU, MS} :
              LET s0   == BSetMode(BInit, m)
                  one  == BOut(BWrite(s0, b))
                  two  == BOut(BWrite(BWrite(s0, Sub(b, 0, k)), From(b, k)))
              IN one = two
\* a ManualBuffer in unsafe mode produces the same text as EscapeBytes up to empty envelopes
InvBufferUnsafe == NormOf(BOut(BWrite(BInit, b))) = NormOf(EscapeBytes(b))
\* strip = TRUE trims trailing LF / space of the suffix first
InvStrip == \A k \in 0..Len(b) :
              LET t == InternalEscape(b, k, FALSE, TRUE) IN
                /\ Len(t) >= k
                /\ Sub(t, 0, k) = Sub(b, 0, k)

Results == [k \in 0..Len(b') |->
             [nb |-> InternalEscape(b', k, FALSE, FALSE), br |-> InternalEscape(b', k, TRUE, FALSE),
              st |-> InternalEscape(b', k, FALSE, TRUE),  bs |-> InternalEscape(b', k, TRUE, TRUE)]]
Emit == EmitOn => PrintT(ToJson([b |-> b', res |-> [i \in 1..(Len(b') + 1) |-> Results[i - 1]],
                                 eb |-> EscapeBytes(b'), em |-> EscapeMarkers(b'),
                                 bu |-> BOut(BWrite(BInit, b')), bs |-> BOut(BWrite(BSetMode(BInit, MS), b'))]))
=============================================================================
