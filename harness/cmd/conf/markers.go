package main

import (
	"bytes"
	"encoding/json"
	"flag"
	"fmt"
	"math/rand"
	"os"
	"runtime"
	"strings"
	"unicode/utf8"

	"github.com/cockroachdb/redact"
	"github.com/cockroachdb/redact/internal/buffer"
	"github.com/cockroachdb/redact/internal/escape"
	"github.com/cockroachdb/redact/verifharness/lib"
)

// ---------------------------------------------------------------------------
// C07: Redact / StripMarkers / conversions

type markersLine struct {
	S      lib.B `json:"s"`
	Strip  lib.B `json:"strip"`
	Redact lib.B `json:"redact"`
	Esc    lib.B `json:"esc"`
	Wf     bool  `json:"wf"`
	Ls     bool  `json:"ls"`
}

type markersCase struct {
	Kind string `json:"kind"`
	S    lib.B  `json:"s"`
}

// judgeMarkers evaluates C07 on one input string with the real functions.
// model may be nil (inputs that do not come from TLC).
func judgeMarkers(rep *lib.Report, s []byte, model *markersLine) {
	kase := markersCase{"markers", s}
	rs := redact.RedactableString(s)
	rb := redact.RedactableBytes(append([]byte(nil), s...))
	stripS := []byte(rs.StripMarkers())
	stripB := rb.StripMarkers()
	redS := []byte(rs.Redact())
	redB := []byte(rb.Redact())
	rep.AddEval(1)

	// variants and conversions agree
	if !bytes.Equal(stripS, stripB) {
		rep.Violate("markers:variants:strip", fmt.Sprintf("string variant %q, bytes variant %q", stripS, stripB), kase)
	}
	if !bytes.Equal(redS, redB) {
		rep.Violate("markers:variants:redact", fmt.Sprintf("string variant %q, bytes variant %q", redS, redB), kase)
	}
	if !bytes.Equal([]byte(rs.ToBytes()), s) || string(rb.ToString()) != string(s) {
		rep.Violate("markers:conversion", "ToBytes/ToString do not preserve the text", kase)
	}
	if !bytes.Equal(rb, s) {
		rep.Violate("markers:input-modified", "the input byte slice was modified", kase)
	}
	// results are values of their own: a later call (of any length) does not change what an earlier one returned
	{
		keepS, keepR := rb.StripMarkers(), []byte(rb.Redact())
		copyS, copyR := append([]byte(nil), keepS...), append([]byte(nil), keepR...)
		for _, other := range []string{"‹interfering› payload", "x", strings.Repeat("‹y›z", 40)} {
			_ = redact.RedactableBytes(other).StripMarkers()
			_ = redact.RedactableBytes(other).Redact()
			_ = redact.RedactableString(other).StripMarkers()
			_ = redact.RedactableString(other).Redact()
		}
		if !bytes.Equal(keepS, copyS) || !bytes.Equal(keepR, copyR) {
			rep.Violate("markers:result-aliased", fmt.Sprintf("a result of StripMarkers / Redact (bytes variant) changed when other values were processed afterwards: %q -> %q, %q -> %q", copyS, keepS, copyR, keepR), kase)
		}
	}
	// conversions hand out values of their own: writing to the slice afterwards does not change a string obtained
	// before, and writing to a slice obtained from a string does not change the string
	if len(s) > 0 {
		rb2 := redact.RedactableBytes(append([]byte(nil), s...))
		str := rb2.ToString()
		before := string(append([]byte(nil), str...))
		for i := range rb2 {
			rb2[i] ^= 0x20
		}
		if string(str) != before {
			rep.Violate("markers:conversion-aliases", fmt.Sprintf("RedactableBytes.ToString: the string changed (%q -> %q) when the slice was written to afterwards", before, str), kase)
		}
		rs2 := redact.RedactableString(string(s))
		bs := rs2.ToBytes()
		if len(bs) > 0 {
			func() {
				defer func() { recover() }() // (writing into read-only string memory would fault: then it is aliased, too)
				bs[0] ^= 0x20
			}()
		}
		if string(rs2) != string(s) {
			rep.Violate("markers:conversion-aliases", "RedactableString.ToBytes: writing to the slice changed the string", kase)
		}
	}
	// arbitrary strings
	if lib.HasMarker(stripS) {
		if utf8.Valid(s) {
			rep.Violate("markers:strip:marker-left:valid-utf8", fmt.Sprintf("StripMarkers left a marker: %q", stripS), kase)
		} else {
			rep.Violate("markers:strip:marker-left:invalid-utf8", fmt.Sprintf("StripMarkers(%q) = %q still holds a marker", s, stripS), kase)
		}
	}
	if again := []byte(redact.RedactableString(redS).Redact()); !bytes.Equal(again, redS) {
		rep.Violate("markers:redact:not-idempotent", fmt.Sprintf("Redact %q, again %q", redS, again), kase)
	}
	// well-formed strings: exact projections
	if cs, ok := lib.Parse(s); ok {
		var want []lib.Chunk
		var all []byte
		for _, c := range cs {
			all = append(all, c.Txt...)
			if c.Cls == 'U' {
				want = append(want, lib.Chunk{Cls: 'U', Txt: []byte("\xC3\x97")})
			} else {
				want = append(want, c)
			}
		}
		if exp := lib.RenderChunks(want); !bytes.Equal(redS, exp) {
			rep.Violate("markers:redact:inexact", fmt.Sprintf("Redact(%q) = %q, want %q", s, redS, exp), kase)
		}
		if !lib.WellFormed(redS) || lib.NumEnvelopes(redS) != lib.NumEnvelopes(s) ||
			!bytes.Equal(lib.DeleteEnvelopes(redS), lib.DeleteEnvelopes(s)) {
			rep.Violate("markers:redact:structure", fmt.Sprintf("Redact(%q) = %q changes the structure", s, redS), kase)
		}
		if !bytes.Equal(stripS, all) {
			rep.Violate("markers:strip:inexact", fmt.Sprintf("StripMarkers(%q) = %q, want %q", s, stripS, all), kase)
		}
		if len(cs) > 1 {
			rep.Nontrivial(string(s))
		}
	}
	if model != nil {
		if !bytes.Equal(stripS, model.Strip) || !bytes.Equal(redS, model.Redact) {
			rep.DriftAt(fmt.Sprintf("s=%q: real strip %q redact %q; model strip %q redact %q", s, stripS, redS, []byte(model.Strip), []byte(model.Redact)))
		}
		if got := redact.EscapeMarkers(append([]byte(nil), s...)); !bytes.Equal(got, model.Esc) {
			rep.DriftAt(fmt.Sprintf("s=%q: EscapeMarkers real %q model %q", s, got, []byte(model.Esc)))
		}
		if lib.WellFormed(s) != model.Wf || lib.LineSafe(s) != model.Ls {
			rep.DriftAt(fmt.Sprintf("s=%q: the Go parser and Markers!Parse disagree", s))
		}
	}
}

// longRedact: the projection laws on LONG well-formed inputs (the model's strings are a few tokens long; an
// implementation may treat large inputs differently -- in pieces, in parallel): envelopes of every length at every
// offset, across every power-of-two boundary up to 256 KiB.  Reference: the independent parser of lib.
func longRedact(rep *lib.Report) {
	r := rand.New(rand.NewSource(lib.Seed() + 77))
	for round := 0; round < 6; round++ {
		var b []byte
		target := []int{70000, 140000, 270000}[round%3]
		for len(b) < target {
			b = append(b, bytes.Repeat([]byte{byte('a' + r.Intn(26))}, r.Intn(40))...)
			if r.Intn(5) == 0 {
				b = append(b, '\n')
			}
			b = append(b, lib.StartM...)
			b = append(b, bytes.Repeat([]byte{byte('A' + r.Intn(26))}, r.Intn(70))...)
			b = append(b, lib.EndM...)
		}
		chunks, ok := lib.Parse(b)
		if !ok {
			continue
		}
		var want, strip []byte
		for _, c := range chunks {
			if c.Cls == 'U' {
				want = append(want, "\u2039\u00d7\u203a"...)
			} else {
				want = append(want, c.Txt...)
			}
			strip = append(strip, c.Txt...)
		}
		kase := map[string]interface{}{"kind": "long-redact", "len": len(b), "round": round}
		rep.AddEval(4)
		if got := redact.RedactableBytes(b).Redact(); !bytes.Equal(got, want) {
			rep.Violate("markers:redact:inexact", fmt.Sprintf("RedactableBytes.Redact on a well-formed input of %d bytes: %d bytes differ from the envelope-by-envelope replacement (first difference at %d)", len(b), len(got)-len(want), firstDiff(got, want)), kase)
		}
		if got := redact.RedactableString(b).Redact(); string(got) != string(want) {
			rep.Violate("markers:redact:inexact", fmt.Sprintf("RedactableString.Redact on a well-formed input of %d bytes differs from the envelope-by-envelope replacement (first difference at %d)", len(b), firstDiff([]byte(got), want)), kase)
		}
		if got := redact.RedactableBytes(b).StripMarkers(); !bytes.Equal(got, strip) {
			rep.Violate("markers:strip:inexact", fmt.Sprintf("RedactableBytes.StripMarkers on a well-formed input of %d bytes differs from the text of its chunks (first difference at %d)", len(b), firstDiff(got, strip)), kase)
		}
		if got := redact.RedactableString(b).StripMarkers(); got != string(strip) {
			rep.Violate("markers:strip:inexact", fmt.Sprintf("RedactableString.StripMarkers on a well-formed input of %d bytes differs from the text of its chunks", len(b)), kase)
		}
	}
}

func firstDiff(a, b []byte) int {
	for i := 0; i < len(a) && i < len(b); i++ {
		if a[i] != b[i] {
			return i
		}
	}
	return len(a)
}

func markersReplay(args []string) {
	fs := flag.NewFlagSet("markers-replay", flag.ExitOnError)
	prop := fs.String("prop", "C07", "")
	fs.Parse(args)
	rep := lib.NewReport(*prop, "markers-replay")
	longRedact(rep)
	lib.Parallel(runtime.NumCPU(), func(emit func([]byte)) {
		_ = lib.TLCLines(os.Stdin, func(raw []byte) { emit(append([]byte(nil), raw...)) })
	}, func(raw []byte) {
		var ln markersLine
		if err := json.Unmarshal(raw, &ln); err != nil {
			return
		}
		rep.AddReplayed(1)
		rep.Guard("markers:panic", markersCase{"markers", ln.S}, func() { judgeMarkers(rep, ln.S, &ln) })
		if len(ln.S) > 8 && ln.Wf && len(ln.Redact) != len(ln.S) {
			rep.Sample(map[string]string{"s": string(ln.S), "redact": string(ln.Redact), "strip": string(ln.Strip)})
		}
	})
	rep.Finish()
}

// ---------------------------------------------------------------------------
// C10: escaping

type escRes struct {
	Nb lib.B `json:"nb"`
	Br lib.B `json:"br"`
	St lib.B `json:"st"`
	Bs lib.B `json:"bs"`
}

type escapeLine struct {
	B   lib.B    `json:"b"`
	Res []escRes `json:"res"`
	Eb  lib.B    `json:"eb"`
	Em  lib.B    `json:"em"`
	Bu  lib.B    `json:"bu"`
	Bs  lib.B    `json:"bs"`
}

type escapeCase struct {
	Kind string `json:"kind"`
	B    lib.B  `json:"b"`
}

func bufWrites(mode buffer.OutputMode, parts ...[]byte) []byte {
	var b buffer.Buffer
	b.SetMode(mode)
	for i, p := range parts {
		if i%2 == 0 {
			b.Write(p)
		} else {
			b.WriteString(string(p))
		}
	}
	return []byte(b.RedactableString())
}

// judgeEscape evaluates C10 on one byte string.
func judgeEscape(rep *lib.Report, b []byte, model *escapeLine) {
	kase := escapeCase{"escape", b}
	rep.AddEval(1)
	orig := append([]byte(nil), b...)
	tail := []byte(nil)
	if lib.LastRuneInvalid(b) {
		tail = []byte{'?'}
	}
	// EscapeMarkers
	em := redact.EscapeMarkers(b)
	if !bytes.Equal(b, orig) {
		rep.Violate("escape:input-modified", "EscapeMarkers modified its input", kase)
	}
	if lib.HasMarker(em) || !bytes.Equal(em, lib.EscapeAll(orig)) {
		rep.Violate("escape:EscapeMarkers", fmt.Sprintf("EscapeMarkers(%q) = %q, want %q", orig, em, lib.EscapeAll(orig)), kase)
	}
	if em2 := redact.EscapeMarkers(append([]byte(nil), em...)); !bytes.Equal(em2, em) {
		rep.Violate("escape:EscapeMarkers:idem", fmt.Sprintf("second pass %q != %q", em2, em), kase)
	}
	// EscapeBytes
	eb := []byte(redact.EscapeBytes(b))
	if !bytes.Equal(b, orig) {
		rep.Violate("escape:input-modified", "EscapeBytes modified its input", kase)
	}
	if !lib.WellFormed(eb) || !lib.LineSafe(eb) {
		rep.Violate("escape:EscapeBytes:illformed", fmt.Sprintf("EscapeBytes(%q) = %q", orig, eb), kase)
	} else {
		want := append(lib.EscapeAll(orig), tail...)
		if got := lib.Strip(eb); !bytes.Equal(got, want) {
			rep.Violate("escape:EscapeBytes:strip", fmt.Sprintf("EscapeBytes(%q) strips to %q, want %q", orig, got, want), kase)
		}
		red := []byte(redact.RedactableBytes(eb).Redact())
		cs, ok := lib.Parse(red)
		good := ok && bytes.Equal(lib.OnlyNL(red), lib.OnlyNL(orig))
		for _, c := range cs {
			if c.Cls == 'U' && string(c.Txt) != "\xC3\x97" {
				good = false
			}
			if c.Cls == 'S' && len(lib.OnlyNL(c.Txt)) != len(c.Txt) {
				good = false
			}
		}
		if !good {
			rep.Violate("escape:EscapeBytes:redact", fmt.Sprintf("Redact(EscapeBytes(%q)) = %q is not only redacted markers and the line feeds of the input", orig, red), kase)
		}
	}
	// InternalEscapeBytes for every offset / flag, never editing the input
	for k := 0; k <= len(b); k++ {
		for flags := 0; flags < 4; flags++ {
			brk, strip := flags&1 != 0, flags&2 != 0
			in := append([]byte(nil), orig...)
			res := escape.InternalEscapeBytes(in, k, brk, strip)
			if !bytes.Equal(in, orig) {
				rep.Violate("escape:input-modified", fmt.Sprintf("InternalEscapeBytes(%q,%d,%v,%v) edited its input in place", orig, k, brk, strip), kase)
			}
			if !brk && !strip {
				want := append(append(append([]byte(nil), orig[:k]...), lib.EscapeAll(orig[k:])...), tail...)
				if !bytes.Equal(res, want) {
					rep.Violate("escape:internal", fmt.Sprintf("InternalEscapeBytes(%q,%d) = %q, want %q", orig, k, res, want), kase)
				}
				if again := escape.InternalEscapeBytes(append([]byte(nil), res...), k, false, false); !bytes.Equal(again, res) {
					rep.Violate("escape:internal:idem", fmt.Sprintf("second pass over %q gives %q", res, again), kase)
				}
			}
			if model != nil && k < len(model.Res) {
				m := model.Res[k]
				exp := [][]byte{m.Nb, m.Br, m.St, m.Bs}[flags]
				if !bytes.Equal(res, exp) {
					rep.DriftAt(fmt.Sprintf("InternalEscapeBytes(%q,%d,brk=%v,strip=%v) = %q, model %q", orig, k, brk, strip, res, exp))
				}
			}
		}
	}
	// through a ManualBuffer, both escaping modes, every split
	for _, mode := range []buffer.OutputMode{buffer.UnsafeEscaped, buffer.SafeEscaped} {
		one := bufWrites(mode, orig)
		for k := 0; k <= len(orig); k++ {
			if two := bufWrites(mode, orig[:k], orig[k:]); !bytes.Equal(one, two) {
				rep.Violate("escape:split", fmt.Sprintf("mode %d: Write(%q) gives %q but Write(%q);WriteString(%q) gives %q", mode, orig, one, orig[:k], orig[k:], two), kase)
			}
		}
		want := append(lib.EscapeAll(orig), tail...)
		if got := lib.Strip(one); !lib.WellFormed(one) || !bytes.Equal(got, want) {
			rep.Violate("escape:buffer", fmt.Sprintf("mode %d: buffer output %q for payload %q", mode, one, orig), kase)
		}
		if model != nil {
			exp := model.Bu
			if mode == buffer.SafeEscaped {
				exp = model.Bs
			}
			if !bytes.Equal(one, exp) {
				rep.DriftAt(fmt.Sprintf("buffer mode %d payload %q: real %q model %q", mode, orig, one, exp))
			}
		}
	}
	// the same through a StringBuilder, which sets the mode before every call
	for kind := 0; kind < 3; kind++ {
		run := func(parts ...[]byte) []byte {
			var sb redact.StringBuilder
			for _, p := range parts {
				switch kind {
				case 0:
					sb.UnsafeString(string(p))
				case 1:
					sb.SafeString(redact.SafeString(p))
				case 2:
					sb.Write(p)
				}
			}
			return []byte(sb.RedactableString())
		}
		one := run(orig)
		for k := 0; k <= len(orig); k++ {
			if two := run(orig[:k], orig[k:]); !bytes.Equal(one, two) {
				rep.Violate("escape:split:builder", fmt.Sprintf("StringBuilder call kind %d: one call with %q gives %q, two calls with %q and %q give %q", kind, orig, one, orig[:k], orig[k:], two), kase)
			}
		}
	}
	if model != nil {
		if !bytes.Equal(eb, model.Eb) {
			rep.DriftAt(fmt.Sprintf("EscapeBytes(%q) = %q, model %q", orig, eb, []byte(model.Eb)))
		}
		if !bytes.Equal(em, model.Em) {
			rep.DriftAt(fmt.Sprintf("EscapeMarkers(%q) = %q, model %q", orig, em, []byte(model.Em)))
		}
	}
	if lib.HasMarker(orig) || bytes.IndexByte(orig, '\n') >= 0 || len(tail) > 0 {
		rep.Nontrivial(string(orig))
	}
}

func escapeReplay(args []string) {
	fs := flag.NewFlagSet("escape-replay", flag.ExitOnError)
	prop := fs.String("prop", "C10", "")
	fs.Parse(args)
	rep := lib.NewReport(*prop, "escape-replay")
	if *prop == "C01" || *prop == "C03" || *prop == "C11" {
		rep.Filter = func(sig string) bool { return strings.Contains(sig, "illformed") || strings.Contains(sig, "panic") }
	}
	lib.Parallel(runtime.NumCPU(), func(emit func([]byte)) {
		_ = lib.TLCLines(os.Stdin, func(raw []byte) { emit(append([]byte(nil), raw...)) })
	}, func(raw []byte) {
		var ln escapeLine
		if err := json.Unmarshal(raw, &ln); err != nil {
			return
		}
		rep.AddReplayed(1)
		rep.Guard("escape:panic", escapeCase{"escape", ln.B}, func() { judgeEscape(rep, ln.B, &ln) })
		if len(ln.B) > 5 && len(ln.Eb) > len(ln.B)+6 {
			rep.Sample(map[string]string{"b": string(ln.B), "EscapeBytes": string(ln.Eb), "EscapeMarkers": string(ln.Em)})
		}
	})
	rep.Finish()
}

func init() {
	register("markers-replay", "C07: replay MCMarkers states on Redact/StripMarkers", markersReplay)
	register("escape-replay", "C10: replay MCEscape states on the escape functions", escapeReplay)
}
