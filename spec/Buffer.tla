------------------------------- MODULE Buffer -------------------------------
(***************************************************************************)
(* internal/buffer/buffer.go.  A buffer state is the record                *)
(*   [buf, valid, mode, open]  = Buffer{buf, validUntil, mode, markerOpen} *)
(* and every method is a function on such records, one operator per Go     *)
(* function (same names, B-prefixed).  Capacity, backing arrays and        *)
(* aliasing are not part of this module (BufferMem).                       *)
(***************************************************************************)
EXTENDS Escape

MU == 0     \* UnsafeEscaped
MS == 1     \* SafeEscaped
MR == 2     \* SafeRaw = PreRedactable
Modes == {MU, MS, MR}

BInit == [buf |-> <<>>, valid |-> 0, mode |-> MU, open |-> FALSE]

BEscapeToEnd(s, brk) ==
  LET nb == InternalEscape(s.buf, s.valid, brk, FALSE)
  IN [s EXCEPT !.buf = nb, !.valid = Len(nb)]

\* endRedactable: early return on the empty buffer leaves markerOpen as it is
BEndRedactable(s) ==
  IF Len(s.buf) = 0 THEN s
  ELSE IF HasSuffix(s.buf, StartM) THEN [s EXCEPT !.buf = DropLast(@, 3), !.open = FALSE]
  ELSE [s EXCEPT !.buf = @ \o EndM, !.open = FALSE]

BStartRedactable(s) ==
  IF HasSuffix(s.buf, EndM) THEN [s EXCEPT !.buf = DropLast(@, 3), !.open = TRUE]
  ELSE [s EXCEPT !.buf = @ \o StartM, !.open = TRUE]

BStartWrite(s) ==
  IF s.mode = MU /\ ~s.open
  THEN LET t == BStartRedactable(s) IN [t EXCEPT !.valid = Len(t.buf)]
  ELSE s

BWrite(s, p) == LET t == BStartWrite(s) IN [t EXCEPT !.buf = @ \o p]     \* Write, WriteString

BWriteByte(s, c) ==
  LET t == BStartWrite(s) IN
  IF t.mode = MU /\ (c >= 128 \/ c = StartM[1] \/ c = EndM[1])
  THEN BWrite(t, <<Q>>)
  ELSE [t EXCEPT !.buf = Append(@, c)]

\* WriteRune after the repair of F1: invalid runes are written as U+FFFD
BWriteRune(s, r) == LET t == BStartWrite(s) IN [t EXCEPT !.buf = @ \o EncodeRune(r)]

BSetMode(s, m) ==
  IF s.mode = m THEN s
  ELSE LET s1 == IF s.mode \in {MU, MS} THEN BEscapeToEnd(s, s.mode = MU) ELSE s
           s2 == IF s1.open THEN BEndRedactable(s1) ELSE s1
       IN [s2 EXCEPT !.valid = Len(s2.buf), !.mode = m]

BFinalize(s) ==
  LET s1 == IF s.mode = MR THEN [s EXCEPT !.valid = Len(s.buf)]
            ELSE BEscapeToEnd(s, s.mode = MU)
  IN IF s1.open THEN LET t == BEndRedactable(s1) IN [t EXCEPT !.valid = Len(t.buf)]
     ELSE s1

BOut(s) == BFinalize(s).buf       \* RedactableString / RedactableBytes (on a struct copy)
BLen(s) == Len(BOut(s))           \* Len
BString(s) == Strip(BOut(s))      \* String

BReset(s) == BInit
\* Take*: finalize in place, detach; markerOpen is whatever finalize left
BTake(s) == LET f == BFinalize(s) IN [f EXCEPT !.buf = <<>>, !.valid = 0, !.mode = MU]

(***************************************************************************)
(* One operation as data: [op, p, n].  Used by the exhaustive model, by    *)
(* the replayer and by the trace specification alike.                      *)
(*   W  Write(p) / WriteString(p)     WB WriteByte(n)    WR WriteRune(n)   *)
(*   SM SetMode(n)   RST Reset   TK Take*   ACC accessor n (state kept)    *)
(***************************************************************************)
Op(o, p, n) == [op |-> o, p |-> p, n |-> n]

BStep(s, o) ==
  CASE o.op = "W"   -> BWrite(s, o.p)
    [] o.op = "WB"  -> BWriteByte(s, o.n)
    [] o.op = "WR"  -> BWriteRune(s, o.n)
    [] o.op = "SM"  -> BSetMode(s, o.n)
    [] o.op = "RST" -> BReset(s)
    [] o.op = "TK"  -> BTake(s)
    [] o.op = "ACC" -> s
    [] o.op = "GR"  -> s                \* Grow(n), n >= 0: capacity only (BufferMem), the value-level state is unchanged

RECURSIVE BRun(_, _)
BRun(s, ops) == IF ops = <<>> THEN s ELSE BRun(BStep(s, Head(ops)), Tail(ops))

\* structural sanity of a state (type invariant)
BTypeOK(s) == /\ s.mode \in Modes
              /\ s.open \in BOOLEAN
              /\ s.valid \in 0..Len(s.buf)
              /\ s.open => s.mode = MU
=============================================================================
