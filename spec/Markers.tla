------------------------------ MODULE Markers ------------------------------
(***************************************************************************)
(* internal/markers: Redact, StripMarkers, EscapeMarkers as byte-level      *)
(* scanners (the implementation uses two regular expressions; that the two *)
(* coincide on arbitrary bytes is an obligation checked by conformance),   *)
(* and the denotational vocabulary the properties are phrased in: Parse,   *)
(* WellFormed, LineSafe, DeleteEnvelopes, Norm.                            *)
(***************************************************************************)
EXTENDS Bytes

RECURSIVE ReplaceMarkers(_, _, _)
ReplaceMarkers(b, i, rep) ==
  IF i >= Len(b) THEN <<>>
  ELSE IF IsMarkerAt(b, i) THEN rep \o ReplaceMarkers(b, i + 3, rep)
  ELSE <<b[i + 1]>> \o ReplaceMarkers(b, i + 1, rep)

Strip(b)         == ReplaceMarkers(b, 0, <<>>)      \* ReStripMarkers -> ""
EscapeMarkers(b) == ReplaceMarkers(b, 0, <<Q>>)     \* ReStripMarkers -> "?"
HasMarker(b)     == \E i \in 0..(Len(b) - 1) : IsMarkerAt(b, i)

RECURSIVE NextMarker(_, _)      \* 0-based index of the first marker at or after i, or -1
NextMarker(b, i) ==
  IF i >= Len(b) THEN -1
  ELSE IF IsMarkerAt(b, i) THEN i
  ELSE NextMarker(b, i + 1)

RECURSIVE RedactFrom(_, _)      \* ReStripSensitive = start [^start end]* end, leftmost-first
RedactFrom(b, i) ==
  IF i >= Len(b) THEN <<>>
  ELSE IF IsStartAt(b, i) THEN
         LET j == NextMarker(b, i + 3) IN
         IF j >= 0 /\ IsEndAt(b, j) THEN RedactedM \o RedactFrom(b, j + 3)
         ELSE StartM \o RedactFrom(b, i + 3)
  ELSE <<b[i + 1]>> \o RedactFrom(b, i + 1)
Redact(b) == RedactFrom(b, 0)

(***************************************************************************)
(* Parse: a redactable string as chunks [cls, txt]; cls "S" is visible     *)
(* text, "U" is the content of one envelope.  ok is FALSE when markers do  *)
(* not strictly alternate (nested start, stray end, unclosed envelope).    *)
(***************************************************************************)
Chunk(c, t) == [cls |-> c, txt |-> t]
PushS(acc, cur) == IF cur = <<>> THEN acc ELSE Append(acc, Chunk("S", cur))

RECURSIVE ParseFrom(_, _, _, _, _)
ParseFrom(b, i, inEnv, cur, acc) ==
  IF i >= Len(b) THEN
       IF inEnv THEN [ok |-> FALSE, chunks |-> acc]
       ELSE [ok |-> TRUE, chunks |-> PushS(acc, cur)]
  ELSE IF IsStartAt(b, i) THEN
       IF inEnv THEN [ok |-> FALSE, chunks |-> acc]
       ELSE ParseFrom(b, i + 3, TRUE, <<>>, PushS(acc, cur))
  ELSE IF IsEndAt(b, i) THEN
       IF ~inEnv THEN [ok |-> FALSE, chunks |-> acc]
       ELSE ParseFrom(b, i + 3, FALSE, <<>>, Append(acc, Chunk("U", cur)))
  ELSE ParseFrom(b, i + 1, inEnv, Append(cur, b[i + 1]), acc)

Parse(b)      == ParseFrom(b, 0, FALSE, <<>>, <<>>)
WellFormed(b) == Parse(b).ok
LineSafe(b)   == LET p == Parse(b) IN
                 p.ok /\ \A n \in 1..Len(p.chunks) :
                            p.chunks[n].cls = "U" => ~Contains(p.chunks[n].txt, NL)

RECURSIVE TextOf(_, _)          \* concatenation of the texts of the chunks of one class
TextOf(chunks, c) ==
  IF chunks = <<>> THEN <<>>
  ELSE (IF Head(chunks).cls = c THEN Head(chunks).txt ELSE <<>>) \o TextOf(Tail(chunks), c)
RECURSIVE AllText(_)
AllText(chunks) == IF chunks = <<>> THEN <<>> ELSE Head(chunks).txt \o AllText(Tail(chunks))

DeleteEnvelopes(b) == TextOf(Parse(b).chunks, "S")
NumEnvelopes(b)    == Len(SelectSeq(Parse(b).chunks, LAMBDA c : c.cls = "U"))

\* Norm: drop empty envelopes, merge adjacent chunks of the same class
RECURSIVE NormAcc(_, _)
NormAcc(chunks, acc) ==
  IF chunks = <<>> THEN acc
  ELSE LET c == Head(chunks) IN
       IF c.txt = <<>> THEN NormAcc(Tail(chunks), acc)
       ELSE IF acc # <<>> /\ acc[Len(acc)].cls = c.cls
            THEN NormAcc(Tail(chunks),
                         [acc EXCEPT ![Len(acc)] = Chunk(c.cls, @.txt \o c.txt)])
            ELSE NormAcc(Tail(chunks), Append(acc, c))
Norm(chunks) == NormAcc(chunks, <<>>)
NormOf(b)    == Norm(Parse(b).chunks)

\* rendering of a chunk sequence (inverse of Parse on well-formed strings)
RECURSIVE Render(_)
Render(chunks) ==
  IF chunks = <<>> THEN <<>>
  ELSE LET c == Head(chunks) IN
       (IF c.cls = "U" THEN StartM \o c.txt \o EndM ELSE c.txt) \o Render(Tail(chunks))

\* the lines of b (split on NL, like strings.Split)
RECURSIVE LinesAcc(_, _, _)
LinesAcc(b, cur, acc) ==
  IF b = <<>> THEN Append(acc, cur)
  ELSE IF Head(b) = NL THEN LinesAcc(Tail(b), <<>>, Append(acc, cur))
  ELSE LinesAcc(Tail(b), Append(cur, Head(b)), acc)
Lines(b) == LinesAcc(b, <<>>, <<>>)

RECURSIVE JoinNL(_)
JoinNL(ls) == IF Len(ls) = 1 THEN ls[1] ELSE ls[1] \o <<NL>> \o JoinNL(Tail(ls))

RECURSIVE MapSeq(_, _)
MapSeq(Op(_), s) == IF s = <<>> THEN <<>> ELSE <<Op(Head(s))>> \o MapSeq(Op, Tail(s))
=============================================================================
