----------------------------- MODULE MCRegistry -----------------------------
(***************************************************************************)
(* RegisterSafeType (internal/rfmt/registry.go) as state: the registry is  *)
(* a set of types that only grows; a value is printed as safe exactly if   *)
(* its type is in the set AT THAT MOMENT -- whatever was registered        *)
(* before or after, in whatever order, of whatever kind; a pointer type and *)
(* its element type are two types.  (C05 quantifies                        *)
(* over all sets of registered types.)  TLC enumerates every order of      *)
(* registering every subset of Types; each behaviour is replayed in a      *)
(* process of its own (registrations cannot be undone), which prints       *)
(* probes of every type after every registration.                          *)
(***************************************************************************)
EXTENDS Naturals, Sequences, FiniteSets, TLC, Json

CONSTANTS Types, EmitOn
VARIABLES reg, order
vars == <<reg, order>>

Init == reg = {} /\ order = <<>>
Register(t) == t \notin reg /\ reg' = reg \cup {t} /\ order' = Append(order, t)
Next == \E t \in Types : Register(t)
Spec == Init /\ [][Next]_vars

\* what a probe of type t shows in the current state
\* (a pointer shows its pointee: in the clear if the pointer type or the pointee's type is registered)
Safe(t) == t \in reg \/ (t = "ptrstruct" /\ "struct" \in reg)

InvGrowOnly == reg = {order[i] : i \in 1..Len(order)}
InvProbe    == \A t \in Types : Safe(t) <=> (\E i \in 1..Len(order) : order[i] = t \/ (t = "ptrstruct" /\ order[i] = "struct"))

\* one line per behaviour prefix: the registrations so far and what each probe must show
Emit == EmitOn => PrintT(ToJson([order |-> order', safe |-> [t \in Types |-> t \in reg' \/ (t = "ptrstruct" /\ "struct" \in reg')]]))
=============================================================================
