-------------------------------- MODULE Pool --------------------------------
(***************************************************************************)
(* The printer pool of internal/rfmt/print.go:137-168 (ppFree, newPrinter, *)
(* free) together with the parts of a printer's life that decide whether   *)
(* it is fit to be handed to the next caller: the override and its         *)
(* restorers (helpers.go), the %w slot, the output buffer and its backing  *)
(* array (Take* detaches it, Reset keeps it), nested printers borrowing    *)
(* the caller's buffer (printer_adapter.go), and panics that propagate.    *)
(* Goroutines are implicit: every live printer is owned by some goroutine  *)
(* and any live printer may take the next step, so all interleavings of    *)
(* all goroutines are covered.                                             *)
(***************************************************************************)
EXTENDS Integers, FiniteSets, Sequences

CONSTANTS Printers,     \* printer objects that can ever exist
          Arrays,       \* backing arrays that can ever be allocated
          MaxNest,      \* bound on restorer / nesting depth
          Defect,       \* "none", or a seeded protocol defect used as vacuity control of the invariants:
                        \* "take_keeps_buf" | "free_keeps_wrapped" | "nested_keeps_buf" | "restore_forgets"
          Features      \* subset of {"wrap", "big", "override", "nested"}: which behaviours a configuration explores

CONSTANT None            \* "no printer" / "no array" (a model value)
ASSUME None \notin Printers /\ None \notin Arrays

VARIABLES
  pooled,     \* printers sitting in ppFree
  live,       \* printers handed out and not yet freed / abandoned
  dead,       \* abandoned (propagating panic) or dropped (huge buffer): never reused
  f,          \* f[p]: the fields of printer p (record below)
  results,    \* backing arrays handed to callers inside returned strings / byte slices
  fresh       \* arrays not yet allocated
vars == <<pooled, live, dead, f, results, fresh>>

Zero == [ov |-> "none", rest |-> <<>>,          \* override and the stack of pending restorers
         wrapErrs |-> FALSE, wrappedErr |-> FALSE,
         dirty |-> FALSE,                        \* buf has content / mode / markerOpen / validUntil, or arg / value set
         arr |-> None, big |-> FALSE,             \* backing array of buf; cap > 64 KiB
         lender |-> None]                        \* nested printer: whose buffer it borrowed

Init == /\ pooled = {} /\ live = {} /\ dead = {}
        /\ f = [p \in Printers |-> Zero]
        /\ results = {} /\ fresh = Arrays

\* a printer that lent its buffer is blocked inside the user method until the borrower is done
Idle(p) == \A q \in live : f[q].lender # p

\* what newPrinter re-initialises
ReInit(r) == [r EXCEPT !.wrapErrs = FALSE]      \* (panicking, erroring too: never left set, not modelled)

\* ppFree.Get(): a pooled printer, or a new one (Pool.New) -- the caller cannot tell which
Get(p) ==
  /\ p \notin live /\ p \notin dead
  /\ live' = live \cup {p} /\ pooled' = pooled \ {p}
  /\ f' = [f EXCEPT ![p] = ReInit(IF p \in pooled THEN @ ELSE Zero)]
  /\ UNCHANGED <<dead, results, fresh>>

\* HelperForErrorf: p.wrapErrs = true
SetWrap(p) == /\ p \in live /\ Idle(p) /\ f[p].lender = None /\ ~f[p].dirty /\ ~f[p].wrapErrs /\ "wrap" \in Features
              /\ f' = [f EXCEPT ![p].wrapErrs = TRUE] /\ UNCHANGED <<pooled, live, dead, results, fresh>>

\* doPrint*: output accumulates; the first write allocates the backing array
Write(p, big) ==
  /\ p \in live /\ Idle(p) /\ (big => "big" \in Features)
  /\ IF f[p].arr = None
     THEN \E a \in fresh : /\ fresh' = fresh \ {a}
                           /\ f' = [f EXCEPT ![p].arr = a, ![p].dirty = TRUE, ![p].big = big]
     ELSE /\ f' = [f EXCEPT ![p].dirty = TRUE, ![p].big = @ \/ big]
          /\ UNCHANGED fresh
  /\ UNCHANGED <<pooled, live, dead, results>>

\* start*Override / startUnsafe / startPreRedactable push a restorer; restore() pops it (deferred: also on panic)
Push(p, o) ==
  /\ p \in live /\ Idle(p) /\ Len(f[p].rest) < MaxNest /\ "override" \in Features
  /\ f' = [f EXCEPT ![p].rest = Append(@, f[p].ov), ![p].ov = IF f[p].ov = "none" THEN o ELSE @]
  /\ UNCHANGED <<pooled, live, dead, results, fresh>>
Pop(p) ==
  /\ p \in live /\ Idle(p) /\ f[p].rest # <<>>
  /\ f' = [f EXCEPT ![p].ov = IF Defect = "restore_forgets" THEN @ ELSE f[p].rest[Len(f[p].rest)],
                    ![p].rest = SubSeq(@, 1, Len(@) - 1)]
  /\ UNCHANGED <<pooled, live, dead, results, fresh>>

\* %w handled / misused; bad verb; contained panic (catchPanic): flags that newPrinter re-initialises anyway
Wrap(p)    == /\ p \in live /\ Idle(p) /\ f[p].wrapErrs /\ ~f[p].wrappedErr /\ f' = [f EXCEPT ![p].wrappedErr = TRUE]
              /\ UNCHANGED <<pooled, live, dead, results, fresh>>
Misuse(p)  == /\ p \in live /\ Idle(p) /\ f[p].wrapErrs /\ f' = [f EXCEPT ![p].wrappedErr = FALSE, ![p].wrapErrs = FALSE]
              /\ UNCHANGED <<pooled, live, dead, results, fresh>>

\* pp.Print / pp.Printf: a nested printer np borrows p's buffer ...
NestedBegin(p, np) ==
  /\ p \in live /\ np \in live /\ p # np /\ f[np].lender = None /\ f[np].arr = None /\ ~f[np].dirty /\ "nested" \in Features
  /\ f[p].lender # np /\ Len(f[np].rest) = 0
  /\ \A q \in live : f[q].lender # p                 \* p is not lending already (it is blocked in the user method)
  /\ f' = [f EXCEPT ![np].lender = p, ![np].arr = f[p].arr, ![np].dirty = f[p].dirty, ![np].big = f[p].big,
                    ![np].ov = f[p].ov]               \* (since the repair of F3 the override is inherited)
  /\ UNCHANGED <<pooled, live, dead, results, fresh>>
\* ... may re-allocate it while writing ...
Regrow(np) ==
  /\ np \in live /\ Idle(np) /\ f[np].lender # None
  /\ \E a \in fresh : fresh' = fresh \ {a} /\ f' = [f EXCEPT ![np].arr = a]
  /\ UNCHANGED <<pooled, live, dead, results>>
\* ... and gives it back: p.buf = np.buf; np.buf = buffer{}; np.override = noOverride; np.free()
NestedEnd(np) ==
  /\ np \in live /\ Idle(np) /\ f[np].lender # None /\ f[np].rest = <<>>
  /\ LET p == f[np].lender IN
     f' = [f EXCEPT ![p].arr = f[np].arr, ![p].dirty = f[np].dirty, ![p].big = f[np].big,
                    ![np] = [Zero EXCEPT !.wrapErrs = f[np].wrapErrs,
                                         !.arr = IF Defect = "nested_keeps_buf" THEN f[np].arr ELSE None]]
  /\ live' = live \ {np} /\ pooled' = pooled \cup {np}
  /\ UNCHANGED <<dead, results, fresh>>

\* a panic that propagates out of a top-level printer: it is never freed (garbage).  A NESTED printer is not abandoned
\* any more: since the repair of F10 pp.Print / pp.Printf hand the buffer back and free it in a deferred call, i.e. the
\* panic path of a nested printer is NestedEnd (its restorers have been popped by their own deferred calls by then).
Abandon(p) ==
  /\ p \in live /\ Idle(p) /\ f[p].lender = None /\ \A q \in live : f[q].lender # p
  /\ live' = live \ {p} /\ dead' = dead \cup {p}
  /\ UNCHANGED <<pooled, f, results, fresh>>

\* TakeRedactableString / TakeRedactableBytes: the caller gets the backing array, the printer lets go of it
Take(p) ==
  /\ p \in live /\ f[p].lender = None /\ f[p].rest = <<>>
  /\ \A q \in live : f[q].lender # p
  /\ results' = IF f[p].arr = None THEN results ELSE results \cup {f[p].arr}
  /\ f' = [f EXCEPT ![p].arr = IF Defect = "take_keeps_buf" THEN @ ELSE None, ![p].big = FALSE]   \* buf = nil
  /\ UNCHANGED <<pooled, live, dead, fresh>>

\* free(): drop printers with a huge buffer; else Reset (keeps storage), clear arg/value/wrappedErr, Put
Free(p) ==
  /\ p \in live /\ f[p].lender = None /\ f[p].rest = <<>>
  /\ \A q \in live : f[q].lender # p
  /\ live' = live \ {p}
  /\ IF f[p].big
     THEN dead' = dead \cup {p} /\ UNCHANGED <<pooled, f>>
     ELSE /\ pooled' = pooled \cup {p} /\ UNCHANGED dead
          /\ f' = [f EXCEPT ![p].dirty = FALSE, ![p].wrappedErr = IF Defect = "free_keeps_wrapped" THEN @ ELSE FALSE]
  /\ UNCHANGED <<results, fresh>>

Next == \E p \in Printers :
          \/ Get(p) \/ SetWrap(p) \/ Write(p, FALSE) \/ Write(p, TRUE) \/ Pop(p) \/ Wrap(p) \/ Misuse(p)
          \/ \E o \in {"safe", "unsafe"} : Push(p, o)
          \/ \E np \in Printers : NestedBegin(p, np)
          \/ Regrow(p) \/ NestedEnd(p) \/ Abandon(p) \/ Take(p) \/ Free(p)
Spec == Init /\ [][Next]_vars

---------------------------------------------------------------------------
\* C12 at the design level: what a caller can get from the pool is indistinguishable from a new printer
\* in every field newPrinter does not re-initialise
Pristine(r) == /\ r.ov = "none" /\ r.rest = <<>>
               /\ ~r.wrappedErr /\ ~r.dirty
               /\ r.lender = None
InvPristine == \A p \in pooled : Pristine(f[p])
\* no backing array is reachable from a pooled printer and from a result a caller still holds
InvNoAliasResult == \A p \in pooled \cup live : f[p].arr # None => f[p].arr \notin results
\* two printers share an array only along a chain of borrowers (p lends to np, np to its own nested printer ...)
RECURSIVE Lends(_, _, _)
Lends(p, q, n) == n > 0 /\ (f[q].lender = p \/ (f[q].lender # None /\ Lends(p, f[q].lender, n - 1)))
InvNoAliasPrinters == \A p, q \in pooled \cup live :
                        (p # q /\ f[p].arr # None /\ f[p].arr = f[q].arr)
                           => (Lends(p, q, Cardinality(Printers)) \/ Lends(q, p, Cardinality(Printers)))
\* only the innermost borrower of a chain writes: a lender is blocked inside the user method
InvLenderIdle == \A p \in pooled : \A q \in live : f[q].lender # p
InvDisjoint == pooled \cap live = {} /\ pooled \cap dead = {} /\ live \cap dead = {}
TypeOK == pooled \subseteq Printers /\ live \subseteq Printers /\ dead \subseteq Printers /\ results \subseteq Arrays
=============================================================================
