package main

import (
	"bytes"
	"encoding/json"
	"errors"
	"fmt"

	"github.com/cockroachdb/redact"
	"github.com/cockroachdb/redact/verifharness/lib"
)

// recWriter records the Write calls it receives and answers as configured.
type recWriter struct {
	calls [][]byte
	mode  int // 0 ok, 1 fails, 2 writes short, 3 fails after taking part of the text, 4 claims more than it was given
}

var errWriter = errors.New("writer failed")

func (w *recWriter) Write(p []byte) (int, error) {
	w.calls = append(w.calls, append([]byte(nil), p...))
	switch w.mode {
	case 1:
		return 0, errWriter
	case 2:
		return len(p) / 2, nil
	case 3:
		return len(p)/2 + 1, errWriter
	case 4:
		return len(p) + 3, nil
	}
	return len(p), nil
}

// recStringWriter also offers WriteString (as *bytes.Buffer, *bufio.Writer, *os.File do): the text must still arrive
// through one Write.
type recStringWriter struct {
	recWriter
	strings int
}

func (w *recStringWriter) WriteString(s string) (int, error) {
	w.strings++
	return w.recWriter.Write([]byte(s))
}

// sfRoute prints its arguments from inside a SafeFormat method.
type sfRoute struct {
	printf bool
	format string
	args   []interface{}
}

func (s sfRoute) SafeFormat(p redact.SafePrinter, _ rune) {
	if s.printf {
		p.Printf(s.format, s.args...)
	} else {
		p.Print(s.args...)
	}
}

var errRoutePrime = errors.New("prime")

// judgeC16: the same argument list through all routes.
func judgeC16(rep *lib.Report, c *lib.Ctx, ln *printerLine, res *realResult, kase json.RawMessage) {
	if (ln.C.E != "Sprint" && ln.C.E != "Sprintf") || res.Panicked {
		return
	}
	desc := caseString(c, ln.C)
	printf := ln.C.E == "Sprintf"
	format := string(c.Subst(ln.C.F))
	args := res.Args
	direct := res.Out
	guard := func(name string, fn func() []byte) ([]byte, bool) {
		var out []byte
		ok := true
		func() {
			defer func() {
				if r := recover(); r != nil {
					ok = false
					rep.Violate("routes:panic", fmt.Sprintf("%s: route %s panicked (%v) although the direct call did not", desc, name, r), kase)
				}
			}()
			out = fn()
		}()
		return out, ok
	}
	// S/F pair: identical bytes, one Write, (n, err) from the writer
	for mode := 0; mode < 5; mode++ {
		w := &recWriter{mode: mode}
		var n int
		var err error
		_, ok := guard("Fprint", func() []byte {
			if printf {
				n, err = redact.Fprintf(w, format, args...)
			} else {
				n, err = redact.Fprint(w, args...)
			}
			return nil
		})
		rep.AddEval(1)
		if !ok {
			continue
		}
		if len(w.calls) != 1 {
			rep.Violate("routes:fprint-writes", fmt.Sprintf("%s: Fprint made %d Write calls", desc, len(w.calls)), kase)
			continue
		}
		if !bytes.Equal(w.calls[0], direct) {
			rep.Violate("routes:fprint-text", fmt.Sprintf("%s: Fprint wrote %q, Sprint returns %q", desc, w.calls[0], direct), kase)
		}
		wantN, wantErr := len(direct), error(nil)
		if mode == 1 {
			wantN, wantErr = 0, errWriter
		} else if mode == 2 {
			wantN = len(direct) / 2
		} else if mode == 3 {
			wantN, wantErr = len(direct)/2+1, errWriter
		} else if mode == 4 {
			wantN = len(direct) + 3
		}
		if n != wantN || err != wantErr {
			rep.Violate("routes:fprint-result", fmt.Sprintf("%s: Fprint returned (%d,%v), the writer said (%d,%v)", desc, n, err, wantN, wantErr), kase)
		}
	}
	{
		w := &recStringWriter{}
		guard("Fprint", func() []byte {
			if printf {
				redact.Fprintf(w, format, args...)
			} else {
				redact.Fprint(w, args...)
			}
			return nil
		})
		rep.AddEval(1)
		if w.strings != 0 {
			rep.Violate("routes:fprint-writes", fmt.Sprintf("%s: Fprint delivered the text through WriteString (%d calls), not through a single Write", desc, w.strings), kase)
		}
	}
	{
		// a redact.StringBuilder is a writer like any other: it receives the text through its (unsafe) Write
		var w1, w2 redact.StringBuilder
		guard("Fprint(*StringBuilder)", func() []byte {
			if printf {
				redact.Fprintf(&w1, format, args...)
			} else {
				redact.Fprint(&w1, args...)
			}
			w2.Write(direct)
			rep.AddEval(1)
			if w1.RedactableString() != w2.RedactableString() {
				rep.Violate("routes:fprint-writes", fmt.Sprintf("%s: Fprint into a StringBuilder leaves %q, one Write of the text leaves %q", desc, w1.RedactableString(), w2.RedactableString()), kase)
			}
			return nil
		})
	}
	// builder, Sprintfn, inside SafeFormat: equal up to merging of adjacent envelopes
	routes := []struct {
		name string
		fn   func() []byte
	}{
		{"StringBuilder", func() []byte {
			var sb redact.StringBuilder
			if printf {
				sb.Printf(format, args...)
			} else {
				sb.Print(args...)
			}
			return []byte(sb.RedactableString())
		}},
		{"Sprintfn", func() []byte {
			return []byte(redact.Sprintfn(func(w redact.SafePrinter) {
				if printf {
					w.Printf(format, args...)
				} else {
					w.Print(args...)
				}
			}))
		}},
		{"SafeFormat", func() []byte {
			return []byte(redact.Sprint(sfRoute{printf, format, args}))
		}},
		{"SafeFormat under %+v", func() []byte { return []byte(redact.Sprintf("%+v", sfRoute{printf, format, args})) }},
		{"SafeFormat under %#v", func() []byte { return []byte(redact.Sprintf("%#v", sfRoute{printf, format, args})) }},
		{"SafeFormat under %6.2v", func() []byte { return []byte(redact.Sprintf("%6.2v", sfRoute{printf, format, args})) }},
		{"SafeFormat under %-08d", func() []byte { return []byte(redact.Sprintf("%-08d", sfRoute{printf, format, args})) }},
	}
	want := lib.NormOf(direct)
	type keptResult struct {
		name string
		s    redact.RedactableString // the very string the route returned (no copy)
		copy string
	}
	var kept []keptResult
	keep := func(name string, fn func() redact.RedactableString) {
		guard(name, func() []byte {
			r := fn()
			kept = append(kept, keptResult{name, r, string(append([]byte(nil), r...))})
			return nil
		})
	}
	keep("Sprintfn", func() redact.RedactableString {
		return redact.Sprintfn(func(w redact.SafePrinter) {
			if printf {
				w.Printf(format, args...)
			} else {
				w.Print(args...)
			}
		})
	})
	keep("SafeFormat", func() redact.RedactableString { return redact.Sprint(sfRoute{printf, format, args}) })
	for _, r := range routes {
		// a route must not depend on what the goroutine printed before: right before each one a call that leaves a
		// pooled printer in its least pristine state (a %w accepted by HelperForErrorf) is made on the same goroutine
		_, _ = redact.HelperForErrorf("%w", errRoutePrime)
		out, ok := guard(r.name, r.fn)
		rep.AddEval(1)
		if !ok {
			continue
		}
		if !lib.WellFormed(out) || !lib.ChunksEqual(lib.NormOf(out), want) {
			rep.Violate("routes:differ", fmt.Sprintf("%s: route %s gives %q, the direct call %q", desc, r.name, out, direct), kase)
		}
	}
	// StringWithoutMarkers(f) is Sprint(f) with the markers stripped
	if !printf && len(args) == 1 {
		if sf, ok := args[0].(redact.SafeFormatter); ok {
			guard("StringWithoutMarkers", func() []byte {
				got := redact.StringWithoutMarkers(sf)
				rep.AddEval(1)
				if want := string(lib.Strip(direct)); got != want {
					rep.Violate("routes:string-without-markers", fmt.Sprintf("%s: StringWithoutMarkers gives %q, Sprint without its markers %q", desc, got, want), kase)
				}
				return nil
			})
		}
	}
	// what a route returned stays what it was, whatever is printed afterwards
	_ = redact.Sprintf("%s|%d|%v", "xxxxxxxxxxxxxxxxxxxxxxxxxxxxxxxx", 123456789, redact.Safe("yyyyyyyyyyyyyyyyyyyyyyyy"))
	_ = redact.Sprint("zzzzzzzzzzzzzzzzzzzzzzzzzzzzzzzzzzzzzzzzzzzzzzzz", 1)
	for _, kr := range kept {
		if string(kr.s) != kr.copy {
			rep.Violate("routes:result-mutated", fmt.Sprintf("%s: the string returned by route %s changed after later print calls: %q -> %q", desc, kr.name, kr.copy, kr.s), kase)
		}
	}
}
