------------------------------ MODULE MCPrinter ------------------------------
(***************************************************************************)
(* The printer specification on the slices of PSlices with the invariants  *)
(* of C01/C03 (well-formed, line-safe), restorer discipline, C05, C06,     *)
(* C11, C15, C17.                                                          *)
(***************************************************************************)
EXTENDS PSpec

(***************************************************************************)
(* The STATEMENT-level classification, independent of modes, overrides     *)
(* and restorers: an inherited attribute walked down the operand term.     *)
(* Ctxs(t, inh, ro) = set of <<id, ctx>>: under which declaration the      *)
(* renderings of term id stand ("safe", "unsafe", "none").                 *)
(***************************************************************************)
RECURSIVE Ctxs(_, _, _)
Ctxs(t, inh, ro) ==
  LET own == IF inh # "none" THEN inh                                   \* the outermost declaration wins
             ELSE CASE t.k = "unsafe" -> "unsafe"
                    [] t.k = "safe"   -> "safe"
                    [] "REG" \in t.caps /\ "NILP" \notin t.caps -> "safe"                \* a registered type (any kind), at any depth
                    [] t.k = "obj" /\ "SV" \in t.caps /\ ~ro -> "safe"      \* O6: not seen behind an unexported field
                    [] t.k = "sstr" /\ ~ro -> "safe"
                    [] OTHER -> "none"
      kids == IF t.k = "struct" THEN UNION {Ctxs(t.xs[i], own, ro \/ t.ro[i]) : i \in 1..Len(t.xs)}
              ELSE UNION {Ctxs(t.xs[i], own, ro \/ t.k = "rvaluero") : i \in 1..Len(t.xs)}
      \* the payload of a panic raised by one of t's methods is printed in place, as an operand under t's declaration
      pans == UNION {Ctxs(t.pan[i], own, FALSE) : i \in 1..Len(t.pan)}
  IN {<<t.id, own>>} \cup kids \cup pans

RECURSIVE SubTerms(_)
SubTerms(t) == {t} \cup UNION {SubTerms(t.xs[i]) : i \in 1..Len(t.xs)} \cup UNION {SubTerms(t.pan[i]) : i \in 1..Len(t.pan)}

CtxMap(ts)  == UNION {Ctxs(ts[i], "none", FALSE) : i \in 1..Len(ts)}
AllTerms(ts) == UNION {SubTerms(ts[i]) : i \in 1..Len(ts)}
CtxOfId(ts, id)  == LET m == {x \in CtxMap(ts) : x[1] = id} IN IF m = {} THEN "none" ELSE (CHOOSE x \in m : TRUE)[2]
TermOfId(ts, id) == LET m == {x \in AllTerms(ts) : x.id = id} IN IF m = {} THEN T0 ELSE CHOOSE x \in m : TRUE

\* declared class of one token of the output
DeclClass(ts, role, id) ==
  LET cx == CtxOfId(ts, id)  t == TermOfId(ts, id) IN
  CASE cx = "unsafe" -> "U"
    [] cx = "safe"   -> "S"
    [] OTHER -> IF role \in {"typename", "typefmt", "ifacetype"} \/ t.k = "nil" THEN "S"    \* names and <nil> are structure
                ELSE IF t.k \in {"rstring", "rbytes"} /\ role # "ptr" THEN "S"      \* what a redactable shows outside its own envelopes (not: its address under %p)
                ELSE IF role = "ret" /\ t.k = "obj" /\ "SM" \in t.caps /\ "SF" \notin t.caps THEN "S"   \* SafeMessage text
                ELSE "U"
TokClass(ts, rt, x) ==
  IF x >= PTok THEN LET t == TermOfId(ts, x - PTok) IN DeclClass(ts, IF t.k \in {"string", "sstr"} THEN "val" ELSE "ret", x - PTok)
  ELSE LET e == rt[x - RTok] IN DeclClass(ts, e.rk, e.id)

HasScripts(ts) == \E t \in AllTerms(ts) : t.scr # <<>> \/ t.fscr # <<>>
\* every payload of the case is made of opaque tokens (the C05 equation speaks about renderings, not about literal bytes)
TokenPure(ts) == \A t \in AllTerms(ts) : \A j \in 1..Len(t.b) : t.b[j] >= PTok
HasUnsafeWrapper(ts) == \E t \in AllTerms(ts) : t.k = "unsafe"

\* C05: deleting the envelopes leaves all structure and exactly the declared-safe renderings
C05Holds(k, r) ==
  LET out == Out(r) IN
  DeleteEnvelopes(out) = SelectSeq(Strip(out), LAMBDA x : ~IsTok(x) \/ TokClass(k.ts, r.rt, x) = "S")

\* C06 on the slice "wrap": root = <<x, wrapper nesting>>
Outermost(w) == IF w \in {"U", "US", "UUS", "USU", "inU", "UstS", "UrvS"} THEN "U" ELSE "S"
C06Holds(k, r) ==
  LET out == Out(r) IN
  IF Outermost(root[2]) = "U"
  THEN DeleteEnvelopes(out) = (IF k.e = "Sprintf" THEN <<A, 32, 32, A>> ELSE <<>>)      \* everything of the operand is enveloped
  ELSE root[1] \in PlainX(60) => ~HasMarker(out)                                        \* nothing of it is

\* C11 on the slice "panic": contained, reported in place, text around intact
PanicReport == PercentBang
C11Holds(k, r) ==
  LET propagates == \* only a panic raised while printing the panic payload may propagate
        \E t \in PanObjs(root) : \E u \in {root} : u.k = "obj" /\ (u.pan # <<>> \/ \E i \in 1..Len(u.scr) : u.scr[i].o = "Panic")
  IN IF Exc(r) THEN propagates
     ELSE LET s == Strip(Out(r)) IN
          (k.e = "Sprintf" /\ HasPrefix(k.f, <<A, 32>>)) => (HasPrefix(s, <<A, 32>>) /\ HasSuffix(s, <<32, A>>))

\* C15 on the slice "errorf"
RECURSIVE CountW(_)
CountW(f) == IF f = <<>> THEN 0 ELSE (IF Head(f) = VW THEN 1 ELSE 0) + CountW(Tail(f))
\* the value an operand stands for as far as %w goes: a reflect.Value operand is the value it holds, Safe / Unsafe wrap one
ErrCarrier(t) == LET u == IF t.k = "rvalue" THEN t.xs[1] ELSE t IN IF u.k \in {"safe", "unsafe"} THEN u.xs[1] ELSE u
HoldsError(t) == IsError(ErrCarrier(t))
ErrIdOf(t)    == ErrCarrier(t).id
\* the operand the single %w directive is applied to, 0 if it is missing / out of range
WOperand(k) == LET its == ParseFormat(k.f, ArgInfo(k.ts))
                   ws  == SelectSeq(its, LAMBDA it : it.t = "Arg" /\ it.v = VW)
               IN IF Len(ws) = 1 THEN ws[1].a + 1 ELSE 0
C15Expected(k) == IF CountW(k.f) = 1 /\ WOperand(k) # 0 /\ HoldsError(k.ts[WOperand(k)])
                  THEN ErrIdOf(k.ts[WOperand(k)]) ELSE 0
\* F4 (known finding): with several %w, a surplus %w on an operand that never reaches handleMethods
\* (basic kinds, nil, MISSING, BADINDEX) does not disable the capture
F4Class(k, r) == CountW(k.f) >= 2 /\ r.wrappedErr # 0
C15Holds(k, r) == r.wrappedErr = C15Expected(k) \/ F4Class(k, r)

\* C17 on the slice "hook": the hook renders exactly the error operands the statement names
HookCalls(r) == SelectSeq(r.calls, LAMBDA x : x.m = "Hook")
C17Holds(k, r) ==
  LET e == HookErr(root[1], 10)
      dispatched == /\ HookKind # "none"
                    /\ IsError(e) /\ "SF" \notin e.caps /\ "SM" \notin e.caps /\ "NILP" \notin e.caps
                    /\ root[2] \notin {"unsafe", "inUnsafe", "inUnsafe2", "inUnsafe3", "fieldu", "u8slice"}
                    \* %w on an operand that is not itself the error is a bad verb, whose inner rendering
                    \* (erroring) involves no method dispatch
                    /\ (k.e = "Errorf" => root[2] \in {"top", "safe"})
      hc == HookCalls(r)
  IN IF root[2] = "u8slice"
     THEN \* both elements reach the hook unless the verb is one of the byte-string verbs (s q x X -> fmtBytes)
          (HookKind # "none" /\ k.e = "Sprintf" /\ Len(k.ts) = 1 /\ k.f[Len(k.f) - 2] \in {VV, VD}) => (Len(hc) = 2)
     ELSE IF dispatched
     THEN /\ Len(hc) >= 1 /\ \A i \in 1..Len(hc) : hc[i].id = e.id
          \* ... and the error's own methods render nothing unless the hook asks for them
          /\ \A i \in 1..Len(r.calls) : r.calls[i].m \in {"Hook", "Error"}
     \* a Stringer that panics with an error VALUE: the report prints that payload through method dispatch, i.e. the hook
     ELSE IF root[1] = "stpanerr" THEN \A i \in 1..Len(hc) : hc[i].id = e.pan[1].id
     ELSE \A i \in 1..Len(hc) : FALSE

(***************************************************************************)
(* ONE zero-arity definition refers to the printer operators: TLC's        *)
(* start-up level analysis costs several seconds for each such definition. *)
(* Check evaluates the selected invariants on the result of the case and   *)
(* prints case + prediction for the replayer.                              *)
(***************************************************************************)
Holds(name, cond) == IF cond THEN TRUE ELSE PrintT(<<"INVARIANT-FAILED", name, c>>) /\ FALSE

Check == lvl = 1 =>
  LET r == Run(c)  ok == ~Exc(r) IN
  \* C01 / C03 at the model level: whatever is returned is a well-formed, line-safe redactable
  /\ Holds("WellFormed", ok => (WellFormed(Out(r)) /\ LineSafe(Out(r))))
  \* restorer discipline: a top-level call ends with no override and clean flags
  /\ Holds("Restored", ok => (r.ov = "none" /\ ~r.erroring /\ ~r.panicking
                               /\ (c.e \in {"Sprint", "Sprintf", "Errorf", "Sprintln"} => r.bs.mode = MS)))      \* every printArg gave the mode back
  /\ Holds("C05", (ok /\ Slice \in {"cls", "qcls", "dir"} /\ ~HasScripts(c.ts) /\ ~HasUnsafeWrapper(c.ts)) => C05Holds(c, r))
  /\ Holds("C05", (ok /\ Slice = "rnd" /\ ~HasScripts(c.ts) /\ ~HasUnsafeWrapper(c.ts) /\ TokenPure(c.ts)) => C05Holds(c, r))
  /\ Holds("C06", (ok /\ Slice = "wrap") => C06Holds(c, r))
  /\ Holds("C11", (Slice = "panic") => C11Holds(c, r))
  /\ Holds("C15", (ok /\ Slice \in {"errorf", "qerrorf", "rnd"}) => C15Holds(c, r))
  /\ Holds("C17", (ok /\ Slice = "hook") => C17Holds(c, r))
  /\ (EmitOn => PrintT(ToJson([c |-> c, exc |-> ~ok, out |-> IF ok THEN Out(r) ELSE <<>>, rt |-> r.rt,
                                calls |-> r.calls, werr |-> r.wrappedErr])))
=============================================================================
