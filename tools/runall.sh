#!/bin/sh
# runs every check of a tier and prints one status line each; JOBS (default 1) checks side by side
# (every check has its own scratch directory and evidence file)
tier=${1:-quick}
cd "$(dirname "$0")/.."
# (longest first: with JOBS > 1 the long checks must not be the last to start)
props="C01 C03 C09 C13 C12 C02 C07 C16 C10 C11 C06 C05 C17 C04 C15 C08 C14"
echo $props | tr ' ' '\n' | xargs -P ${JOBS:-1} -I{} sh -c 'p={}; s=$(date +%s); ./check $p --tier '$tier' > .runall.$p.log 2>&1; rc=$?; e=$(date +%s); echo "$p rc=$rc $((e-s))s $(grep -c "^VIOLATION" .runall.$p.log) violations, $(grep -c "^KNOWN-FINDING" .runall.$p.log) known, $(grep -c "^MODEL-DRIFT" .runall.$p.log) drift"'
# one line that cannot be missed: which checks did not end clean
bad=$(for p in $props; do if grep -q "^VIOLATION\|^BROKEN" .runall.$p.log 2>/dev/null; then printf "%s " $p; fi; done)
echo "SUMMARY tier=$tier not-clean: ${bad:-none}"
exit
