"""Stage tables: which specification runs and which conformance runs decide
each property, per tier.  See DESIGN.md section 6."""


def tier(ctx, quick, thorough):
    return quick if ctx.tier == "quick" else thorough


# ---------------------------------------------------------------------------
# shared stages

def buffer_model(ctx):
    """MCBuffer: exhaustive buffer state machine, every transition replayed"""
    consts = tier(ctx,
                  dict(MaxOps=3, MaxPay=2, Alpha="A6", ByteArgs="QByteArgs", RuneArgs="QRuneArgs", RawFrags="QRawFrags"),
                  dict(MaxOps=4, MaxPay=2, Alpha="A6", ByteArgs="TByteArgs", RuneArgs="TRuneArgs", RawFrags="TRawFrags"))
    ctx.tlc_replay("MCBuffer", "Buffer.cfg", ["buffer-replay", "-prop", ctx.prop], consts=consts)


BUFFER_RULE = ("TLC enumerates every sequence of Write/WriteByte/WriteRune/SetMode/Reset/Take up to MaxOps operations "
               "with every payload over the 6-byte alphabet {E2,80,B9,BA,'a',LF} up to MaxPay bytes (raw-mode writes: "
               "well-formed fragments); each explored transition is replayed on the real Buffer in 4 variants "
               "(Write/WriteString, Take variants, accessors inserted after every call); distinct = distinct hidden "
               "states (buf, validUntil, mode, markerOpen) reached on the real object")


def buffer_traces(ctx):
    """random long histories on the real ManualBuffer: judged by the predicates, every step validated by TLC"""
    n, tracen = tier(ctx, (3000, 20000), (60000, 150000))
    trace = ctx.work + "/buf.ndjson"
    ctx.harness(["buffer-drive", "-prop", ctx.prop, "-n", str(n), "-trace", trace, "-tracen", str(tracen)])
    ctx.trace_validate(trace, "buffer-drive")


def c07(ctx):
    ctx.tlc_replay("MCMarkers", "Markers.cfg", ["markers-replay"], consts=dict(MaxTok=tier(ctx, 5, 6)))
    n, tracen = tier(ctx, (30000, 5000), (400000, 40000))
    trace = ctx.work + "/markers.ndjson"
    ctx.harness(["markers-drive", "-n", str(n), "-trace", trace, "-tracen", str(tracen)])
    ctx.trace_validate(trace, "markers-drive")


def c10(ctx):
    ctx.tlc_replay("MCEscape", "Escape.cfg", ["escape-replay"], consts=dict(MaxTok=tier(ctx, 4, 5)))
    n, tracen = tier(ctx, (20000, 5000), (300000, 40000))
    trace = ctx.work + "/escape.ndjson"
    ctx.harness(["escape-drive", "-n", str(n), "-trace", trace, "-tracen", str(tracen)])
    ctx.trace_validate(trace, "escape-drive")


def c01(ctx):
    buffer_model(ctx)
    buffer_traces(ctx)


def c03(ctx):
    buffer_model(ctx)
    buffer_traces(ctx)


def c09(ctx):
    buffer_model(ctx)
    buffer_traces(ctx)


def c13(ctx):
    buffer_model(ctx)
    buffer_traces(ctx)


PROPS = {
    "C07": dict(run=c07, exhaustive=True, rule=(
        "TLC enumerates every string that is a concatenation of at most MaxTok tokens from {start marker, end marker, "
        "cross, LF, 'a', E2, 80, B9, BA} and checks the projection invariants; every such string is given to the real "
        "Redact/StripMarkers/ToBytes/ToString (string and bytes variants) and compared with the model and with the "
        "property's own statement; plus random strings of up to 14 richer tokens, recorded and validated by TLC; "
        "distinct_nontrivial = distinct well-formed inputs with more than one chunk"), assumptions=[
        "F6 (known finding): on invalid UTF-8 a single StripMarkers pass can re-assemble a marker from the bytes around a removed one"]),
    "C10": dict(run=c10, exhaustive=True, rule=(
        "TLC enumerates every byte string of at most MaxTok tokens from {E2,80,B9,BA,'a',space,LF,'?',start marker,end marker} "
        "and checks the escape invariants for every start offset, both line-splitting and both strip settings; each string "
        "is replayed on InternalEscapeBytes (all offsets x flags, input slice checked unmodified), EscapeMarkers, EscapeBytes "
        "and a ManualBuffer in both escaping modes with every split point; plus random strings up to 20 tokens recorded and "
        "validated by TLC; distinct_nontrivial = distinct inputs holding a marker, a LF or a dangling partial sequence"), assumptions=[
        "'ends in a truncated multi-byte sequence' is read as utf8.DecodeLastRune = (RuneError,1), the test the code and the Go standard library share"]),
    "C01": dict(run=c01, rule=BUFFER_RULE, exhaustive=True, assumptions=[
        "raw (PreRedactable) writes are well-formed fragments, the mode's documented precondition"]),
    "C03": dict(run=c03, rule=BUFFER_RULE, exhaustive=True, assumptions=[
        "raw (PreRedactable) writes are well-formed, line-safe fragments"]),
    "C09": dict(run=c09, rule=BUFFER_RULE, exhaustive=True, assumptions=[
        "the two equalities are claimed for valid UTF-8 payloads and valid runes only (property text)"]),
    "C13": dict(run=c13, rule=BUFFER_RULE, exhaustive=True, assumptions=[
        "Cap() and the aliasing RedactableBytes slice are outside the claim (property text speaks of strings)"]),
}
