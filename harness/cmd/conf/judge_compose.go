package main

import (
	"bytes"
	"encoding/json"
	"fmt"

	"github.com/cockroachdb/redact"
	"github.com/cockroachdb/redact/verifharness/lib"
)

// judgeC08: redactables passed back into the printer come out unchanged.  The
// expected text is obtained relationally: the same call with every redactable
// operand replaced by a distinct plain placeholder, then the placeholders
// replaced by the real contents -- so the verdict does not depend on the model.
func judgeC08(rep *lib.Report, c *lib.Ctx, ln *printerLine, res *realResult, kase json.RawMessage) {
	if res.Panicked || !lib.HasKind(ln.C.Ts, "rstring", "rbytes", "builder") {
		return
	}
	rnd := currentSlice == "rnd"
	if rnd && (printsAddresses(ln) || formatHasVerb(ln.C.F, 'T')) {
		return // two runs of the same call differ in the addresses they print; %T and %p are outside the statement
	}
	cm := lib.CtxMap(ln.C.Ts)
	desc := caseString(c, ln.C)
	// deep copy of the operand terms with placeholder contents
	raw, _ := json.Marshal(ln.C)
	var ph pCase
	_ = json.Unmarshal(raw, &ph)
	contents := map[string][]byte{}
	byID := map[int]string{}
	var mark func(ts []*lib.Term, depth int)
	mark = func(ts []*lib.Term, depth int) {
		for _, t := range ts {
			if depth > 0 && (t.K == "safe" || t.K == "unsafe") {
				continue // a wrapper nested in a container is rendered by the standard fmt through its own methods (O2, O9)
			}
			if (t.K == "rstring" || t.K == "rbytes") && cm[t.ID] != "unsafe" { // (under Unsafe() a redactable is data like any other)
				p, seen := byID[t.ID]
				if !seen {
					p = fmt.Sprintf("@@%d@@", len(contents))
					byID[t.ID] = p // the same term (same id) occurring twice keeps one placeholder: it is one value
				}
				contents[p] = c.Subst(t.B)
				t.B = nil
				for _, b := range []byte(p) {
					t.B = append(t.B, int(b))
				}
				t.ID += 5000 // not the memoised value of the real run
			}
			if t.K == "builder" {
				// a StringBuilder operand stands for the redactable it holds (StringBuilder.SafeFormat): content from a real
				// builder fed with the calls; under Unsafe() the builder is a Stringer instead (C06's subject: skipped)
				var sb redact.StringBuilder
				c.RunWriterOps(t.Scr, &sb, &sb)
				p := fmt.Sprintf("@@%d@@", len(contents))
				contents[p] = []byte(sb.RedactableString())
				t.K, t.Scr, t.B = "rstring", nil, nil
				for _, b := range []byte(p) {
					t.B = append(t.B, int(b))
				}
				t.ID += 5000
			}
			mark(t.Xs, depth+1)
		}
	}
	if lib.HasKind(ln.C.Ts, "builder") && lib.HasKind(ln.C.Ts, "unsafe") {
		return
	}
	mark(ph.Ts, 0)
	if len(contents) == 0 {
		return
	}
	pc := lib.NewCtxLike(nil, c.HandleBase) // (object handles are numbers that can show in the output)
	pr := runCase(pc, ph)
	pc.Release()
	rep.AddEval(1)
	if pr.Panicked {
		return
	}
	vis := lib.DeleteEnvelopes(pr.Out)
	exp, expRed, expStrip := pr.Out, []byte(redact.RedactableBytes(pr.Out).Redact()), redact.RedactableBytes(pr.Out).StripMarkers()
	for p, content := range contents {
		if rnd && !bytes.Contains(pr.Out, []byte(p)) {
			return // the operand is not printed at all by this format (EXTRA, explicit indexes): no oracle
		}
		if bytes.Count(vis, []byte(p)) != bytes.Count(pr.Out, []byte(p)) || !bytes.Contains(pr.Out, []byte(p)) {
			rep.Violate("compose:placeholder-hidden", fmt.Sprintf("%s: a plain redactable %q was enveloped or altered: %q", desc, p, pr.Out), kase)
			return
		}
		exp = bytes.ReplaceAll(exp, []byte(p), content)
		expRed = bytes.ReplaceAll(expRed, []byte(p), []byte(redact.RedactableBytes(content).Redact()))
		expStrip = bytes.ReplaceAll(expStrip, []byte(p), redact.RedactableBytes(content).StripMarkers())
	}
	if !bytes.Equal(res.Out, exp) && len(ln.C.Ts) > 1 && chunksEqual(lib.NormOf(res.Out), lib.NormOf(exp)) {
		// an unsafe operand printed right after a redactable that ends in an envelope continues that envelope (the
		// buffer elides the marker pair in between): the same chunks, merged
		return
	}
	if !bytes.Equal(res.Out, exp) {
		rep.Violate("compose:not-identity", fmt.Sprintf("%s: output %q, the redactables unchanged would give %q", desc, res.Out, exp), kase)
		return
	}
	// "not reformatted": the relation above compares two runs of the same code, so a decoration added to redactables and
	// to their placeholders alike passes it.  Absolutely: no verb wraps a redactable's content in quotation marks (Go-syntax
	// printing of the containers around it names types and fields, the redactable itself stays as it is).  Only a
	// content quoted on BOTH sides and delimited by container punctuation counts: a lone quotation mark next to it can
	// belong to the rendering of a neighbouring operand.
	for _, content := range contents {
		if len(content) == 0 {
			continue
		}
		for _, q := range []string{"\"", "`"} {
			quoted := append(append([]byte(q), content...), q...)
			for off := 0; ; {
				i := bytes.Index(res.Out[off:], quoted)
				if i < 0 {
					break
				}
				i += off
				off = i + 1
				before, after := byte(' '), byte(' ')
				if i > 0 {
					before = res.Out[i-1]
				}
				if j := i + len(quoted); j < len(res.Out) {
					after = res.Out[j]
				}
				if bytes.IndexByte([]byte("{[:( "), before) >= 0 && bytes.IndexByte([]byte("}],) :"), after) >= 0 {
					rep.Violate("compose:reformatted", fmt.Sprintf("%s: output %q wraps the redactable %q in quotation marks", desc, res.Out, content), kase)
					return
				}
			}
		}
	}
	// ... and no verb makes a redactable a "bad verb" operand (%p and %T are outside the statement): a report that names
	// one of the redactable types is a reformatting, whatever stands inside it
	if !formatHasVerb(ln.C.F, 'p') && !formatHasVerb(ln.C.F, 'T') {
		for _, tn := range []string{"(redact.Redactable", "(markers.Redactable"} {
			if i := bytes.Index(res.Out, []byte(tn)); i >= 2 && bytes.LastIndex(res.Out[:i], []byte("%!")) >= i-6 && bytes.LastIndex(res.Out[:i], []byte("%!")) >= 0 {
				rep.Violate("compose:reformatted", fmt.Sprintf("%s: output %q reports a redactable operand as a bad verb", desc, res.Out), kase)
				return
			}
		}
	}
	if got := []byte(redact.RedactableBytes(res.Out).Redact()); !bytes.Equal(got, expRed) {
		rep.Violate("compose:redact-distributes", fmt.Sprintf("%s: Redact gives %q, piecewise %q", desc, got, expRed), kase)
	}
	if got := redact.RedactableBytes(res.Out).StripMarkers(); !bytes.Equal(got, expStrip) && validAll(contents) {
		rep.Violate("compose:strip-distributes", fmt.Sprintf("%s: StripMarkers gives %q, piecewise %q", desc, got, expStrip), kase)
	}
	if !lib.WellFormed(res.Out) || !lib.LineSafe(res.Out) {
		rep.Violate("compose:not-closed", fmt.Sprintf("%s: output %q is not a line-safe redactable", desc, res.Out), kase)
	}
}

func chunksEqual(a, b []lib.Chunk) bool {
	if len(a) != len(b) {
		return false
	}
	for i := range a {
		if a[i].Cls != b[i].Cls || !bytes.Equal(a[i].Txt, b[i].Txt) {
			return false
		}
	}
	return true
}

func formatHasVerb(f []int, verb int) bool {
	for i := 0; i < len(f); i++ {
		if f[i] == '%' {
			j := i + 1
			for j < len(f) && !(f[j] >= 'a' && f[j] <= 'z' || f[j] >= 'A' && f[j] <= 'Z' || f[j] == '%') {
				j++
			}
			if j < len(f) && f[j] == verb {
				return true
			}
			i = j
		}
	}
	return false
}

func validAll(m map[string][]byte) bool {
	for _, v := range m {
		if lib.LastRuneInvalid(v) || lib.HasMarker(lib.Strip(v)) {
			return false
		}
	}
	return true
}

// judgeJoin: redact.Join / JoinTo = plain concatenation with the delimiter (any SafeWriter).
func judgeJoin(rep *lib.Report, parts [][]byte, delim []byte) {
	var rs []redact.RedactableString
	var want []byte
	for i, p := range parts {
		rs = append(rs, redact.RedactableString(p))
		if i > 0 {
			want = append(want, delim...)
		}
		want = append(want, p...)
	}
	kase := map[string]interface{}{"kind": "join", "parts": parts, "delim": delim}
	rep.AddEval(2)
	if got := redact.Join(redact.RedactableString(delim), rs); string(got) != string(want) {
		rep.Violate("compose:join", fmt.Sprintf("Join(%q, %q) = %q, want %q", delim, parts, got, want), kase)
	}
	got := redact.Sprintfn(func(w redact.SafePrinter) { redact.JoinTo(w, redact.RedactableString(delim), rs) })
	if !lib.ChunksEqual(lib.NormOf([]byte(got)), lib.NormOf(want)) {
		rep.Violate("compose:jointo", fmt.Sprintf("JoinTo on a printer (%q, %q) = %q, want %q", delim, parts, got, want), kase)
	}
}

// joinEdgeCases: Join / JoinTo on empty and one-element slices, empty and enveloped delimiters: no panic, plain
// concatenation, and Redact / StripMarkers distribute over the composition (C08, C11).
func joinEdgeCases(rep *lib.Report) {
	parts := [][]redact.RedactableString{nil, {}, {"‹a›"}, {"‹a›", "‹b›"}, {"x", "‹a›", ""}, {"‹a›\n", "‹b›"}, {"", ""}, {"‹×›", "‹×›", "‹c›"}}
	delims := []redact.RedactableString{"", ", ", "‹,›", "\n", "‹×›"}
	for _, ps := range parts {
		for _, d := range delims {
			kase := map[string]interface{}{"kind": "join", "delim": string(d), "parts": ps}
			rep.Guard("compose:join-panic", kase, func() {
				got := redact.Join(d, ps)
				var sb redact.StringBuilder
				redact.JoinTo(&sb, d, ps)
				rep.AddEval(2)
				want, wantRed, wantStrip := "", "", ""
				for i, x := range ps {
					if i > 0 {
						want, wantRed, wantStrip = want+string(d), wantRed+string(d.Redact()), wantStrip+d.StripMarkers()
					}
					want, wantRed, wantStrip = want+string(x), wantRed+string(x.Redact()), wantStrip+x.StripMarkers()
				}
				if string(got) != want || string(sb.RedactableString()) != want {
					rep.Violate("compose:join", fmt.Sprintf("Join(%q, %q) = %q, JoinTo on a builder %q, want the plain concatenation %q", d, ps, got, sb.RedactableString(), want), kase)
					return
				}
				if r := string(got.Redact()); r != wantRed {
					rep.Violate("compose:redact-distributes", fmt.Sprintf("Redact(Join(%q, %q)) = %q, joining the redacted pieces gives %q", d, ps, r, wantRed), kase)
				}
				if r := got.StripMarkers(); r != wantStrip {
					rep.Violate("compose:strip-distributes", fmt.Sprintf("StripMarkers(Join(%q, %q)) = %q, piecewise %q", d, ps, r, wantStrip), kase)
				}
			})
		}
	}
}
