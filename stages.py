import os
"""Stage tables: which specification runs and which conformance runs decide
each property, per tier.  See DESIGN.md section 6."""


Broken = Exception  # replaced by check's Broken on import


def tier(ctx, quick, thorough):
    return quick if ctx.tier == "quick" else thorough


# ---------------------------------------------------------------------------
# shared stages

def buffer_model(ctx, deep=True):
    """MCBuffer: exhaustive buffer state machine, every transition replayed.
    quick: every sequence of <= 3 operations, payloads <= 2 bytes, small argument sets;
    thorough: (wide) <= 3 operations over the large argument sets, and -- for the properties whose subject is the
    buffer itself (deep) -- every sequence of <= 4 operations with payloads <= 1 byte plus the spicy ones"""
    if ctx.tier == "quick":
        consts = dict(MaxOps=3, MaxPay=2, Alpha="A6", ByteArgs="QByteArgs", RuneArgs="QRuneArgs", RawFrags="QRawFrags", Spicy="QSpicy")
        ctx.tlc_replay("MCBuffer", "Buffer.cfg", ["buffer-replay", "-prop", ctx.prop], consts=consts)
        return
    wide = dict(MaxOps=3, MaxPay=2, Alpha="A6", ByteArgs="TByteArgs", RuneArgs="TRuneArgs", RawFrags="TRawFrags", Spicy="TSpicy")
    ctx.tlc_replay("MCBuffer", "Buffer.cfg", ["buffer-replay", "-prop", ctx.prop], consts=wide)
    if deep:
        dp = dict(MaxOps=4, MaxPay=2, Alpha="A6", ByteArgs="QByteArgs", RuneArgs="QRuneArgs", RawFrags="QRawFrags", Spicy="QSpicy")
        ctx.tlc_replay("MCBuffer", "Buffer.cfg", ["buffer-replay", "-prop", ctx.prop], consts=dp)
        dp6 = dict(MaxOps=6, MaxPay=1, Alpha="A6", ByteArgs="QByteArgs", RuneArgs="QRuneArgs", RawFrags="QRawFrags", Spicy="NoSpicy")
        ctx.tlc_replay("MCBuffer", "Buffer.cfg", ["buffer-replay", "-prop", ctx.prop], consts=dp6)


BUFFER_RULE = ("long-drive: payload lengths around the implementation's size thresholds (63-66, 127-130, 255-257, 300, 1000, 5000, "
               "65535-65537, 70000) in buffer histories with Reset/Take continuations and in printing calls, judged model-free. "
               "TLC enumerates every sequence of Write/WriteByte/WriteRune/SetMode/Reset/Take up to MaxOps operations "
               "with every payload over the 6-byte alphabet {E2,80,B9,BA,'a',LF} up to MaxPay bytes (raw-mode writes: "
               "well-formed fragments); each explored transition is replayed on the real Buffer in 4 variants "
               "(Write/WriteString, Take variants, accessors inserted after every call); distinct = distinct hidden "
               "states (buf, validUntil, mode, markerOpen) reached on the real object")


def universe_wellformed(ctx):
    """everything printed for the fmt-compatible value universe (random formats, verb x flag grid, four routes) is well-formed
    and line-safe -- values and TYPE NAMES (struct tags) holding markers, line feeds and partial markers included"""
    ctx.harness(["fmtdiff-drive", "-prop", ctx.prop, "-n", str(tier(ctx, 60000, 1000000))])


def long_payloads(ctx):
    """payload lengths around the size thresholds of the implementation (64-byte small buffer, doubling growth, the
    64 KiB pool limit, any size-dependent fast path): buffer histories and printing calls, judged model-free"""
    ctx.harness(["long-drive", "-prop", ctx.prop, "-reps", str(tier(ctx, 2, 12))])


def buffer_traces(ctx):
    """random long histories on the real ManualBuffer: judged by the predicates, every step validated by TLC"""
    n, tracen = tier(ctx, (3000, 20000), (60000, 150000))
    trace = ctx.work + "/buf.ndjson"
    ctx.harness(["buffer-drive", "-prop", ctx.prop, "-n", str(n), "-trace", trace, "-tracen", str(tracen)])
    ctx.trace_validate(trace, "buffer-drive")


def repo_suite_traces(ctx):
    """the repository's own test suite run with the tracing hooks on: every buffer transition it triggers is
    validated by TLC against the Buffer specification (behaviour the tests exercise but do not assert)"""
    import glob, os, subprocess
    d = os.path.join(ctx.work, "suite")
    os.makedirs(d, exist_ok=True)
    env = dict(ctx.env, REDACT_VERIF_TRACE=os.path.join(d, "t"))
    r = subprocess.run(["go", "test", "-tags", "verif", "-vet=off", "-count=1", "./..."], cwd=ctx.repo, env=env,
                       capture_output=True, text=True, timeout=1200)
    if r.returncode != 0:
        raise Broken("the repository's test suite fails with the verif tag on:\n" + (r.stdout + r.stderr)[-3000:])
    out = os.path.join(ctx.work, "suite.ndjson")
    with open(out, "wb") as fh:
        for f in sorted(glob.glob(d + "/t.*")):
            fh.write(open(f, "rb").read())
    ctx.trace_validate(out, "repo-test-suite")


def c07(ctx):
    ctx.tlc_replay("MCMarkers", "Markers.cfg", ["markers-replay"], consts=dict(MaxTok=tier(ctx, 5, 6)))
    n, tracen = tier(ctx, (30000, 5000), (400000, 40000))
    trace = ctx.work + "/markers.ndjson"
    ctx.harness(["markers-drive", "-n", str(n), "-trace", trace, "-tracen", str(tracen)])
    ctx.trace_validate(trace, "markers-drive")


def c10(ctx):
    ctx.tlc_replay("MCEscape", "Escape.cfg", ["escape-replay", "-prop", "C10"], consts=dict(MaxTok=tier(ctx, 4, 5)))
    buffer_model(ctx, deep=False)
    n, tracen = tier(ctx, (20000, 5000), (300000, 40000))
    trace = ctx.work + "/escape.ndjson"
    ctx.harness(["escape-drive", "-n", str(n), "-trace", trace, "-tracen", str(tracen)])
    ctx.trace_validate(trace, "escape-drive")


def printer_slice(ctx, sl, hook="none", extra_consts=None, module="MCPrinter", cfg="Printer.cfg"):
    """MCPrinter on one slice: TLC runs the printer specification on every enumerated case, checks the
    model-level invariants, and every case is replayed on the real printer (byte-exact + the property's predicates)"""
    consts = dict(Slice='"%s"' % sl, HookKind='"%s"' % hook)
    consts.update(extra_consts or {})
    return ctx.tlc_replay(module, cfg, ["printer-replay", "-prop", ctx.prop, "-hook", hook, "-slice", sl], consts=consts)


def printer_rnd(ctx, n=None, module="MCPrinter", cfg="Printer.cfg", hook="none"):
    """slice rnd: pseudo-random cases (operand terms up to four levels deep over every constructor of the term language,
    formats assembled from literals and directives), a pure function of (seed, index); run through the specification
    by TLC and replayed on the real printer like every other slice"""
    n = int(os.environ.get("VERIF_RND_N", 0)) or n or tier(ctx, 1600, 24000)
    return printer_slice(ctx, "rnd", hook=hook, module=module, cfg=cfg,
                         extra_consts=dict(RndN=n, RndSeed=int(os.environ.get("VERIF_SEED", "1")) % 90))


def printer_rnd_hook(ctx):
    """the random slice with an error hook registered"""
    return printer_rnd(ctx, n=tier(ctx, 800, 8000), hook="plain")


def routes_panic(ctx):
    return printer_slice(ctx, "panic", module="MCRoutes", cfg="Routes.cfg")


def routes_smoke(ctx):
    return printer_slice(ctx, "smoke", module="MCRoutes", cfg="Routes.cfg")


def routes_rnd(ctx):
    """the random slice through the four routes of C16 (MCRoutes)"""
    return printer_rnd(ctx, n=tier(ctx, 800, 8000), module="MCRoutes", cfg="Routes.cfg")


def printer_panic(ctx):
    return printer_slice(ctx, "panic")


def hook_silent(ctx):
    return printer_slice(ctx, "hook", hook="silent")


def printer_control_f3(ctx):
    """vacuity control: on the specification of the code BEFORE the repair of F3 (nested printers dropping the
    override) TLC must find the C06 invariant violated"""
    st = ctx.tlc_only("MCPrinter", "Printer.cfg", expect_ok=False,
                      consts=dict(Slice='"wrap"', EmitOn="FALSE", NestedOverride='"dropped"'))
    ctx.control("C06 invariant on the pre-repair model (NestedOverride=dropped) must fail",
                (not st["ok"]) and '"C06"' in st["text"])


def printer_control_f8(ctx):
    """vacuity control: on the specification of the code BEFORE the repair of F8 (SafeMessager taking the safe override
    for every verb) TLC must find the classification invariant violated (slice cls holds SafeMessagers under %d)"""
    st = ctx.tlc_only("MCPrinter", "Printer.cfg", expect_ok=False,
                      consts=dict(Slice='"cls"', EmitOn="FALSE", SMOverride='"always"'))
    ctx.control("classification invariant on the pre-repair model (SMOverride=always) must fail",
                (not st["ok"]) and '"C05"' in st["text"])


def sort_model(ctx):
    """FmtSort: the order in which map entries are printed; every key set of <= 3 (4) keys per kind, replayed on real maps"""
    ctx.tlc_replay("MCSort", "Sort.cfg", ["sort-replay", "-prop", ctx.prop], consts=dict(MaxKeys=tier(ctx, 3, 4)))


def c02(ctx):
    printer_control_f8(ctx)
    sort_model(ctx)
    registry_model(ctx)    # what is public is decided by the registry at that moment: exactly the registered types
    for sl in tier(ctx, ["qcls", "wrap", "smoke", "dir"], ["cls", "wrap", "panic", "smoke", "dir"]):
        printer_slice(ctx, sl)
    printer_rnd(ctx)
    ctx.harness(["maporder-drive", "-prop", "C02"])   # maps print in key order: order-isomorphic unsafe keys, same redacted text
    # the whole fmt-compatible universe of C04 (Go values of every kind) plus redact-specific values, built from two secrets
    ctx.harness(["secrets-drive", "-prop", "C02", "-pairs", str(tier(ctx, 4000, 200000))])
    buffer_model(ctx, deep=False)      # a result that changes after it was returned is not independent of later data
    writer_model(ctx)                  # incl. the probes of every io writing interface a builder satisfies


def mode_traces(ctx):
    """code -> model for the printer: the mode/override events of real executions -- the whole value universe of C04
    plus redact-specific values, wrapped and unwrapped, every verb; and the repository's own test suite -- are judged
    by the mode monitor (model-free) and validated by TLC against ModeTrace (the operators of Printer.tla)"""
    import glob, os, subprocess
    trace = ctx.work + "/mode.ndjson"
    ctx.harness(["mode-drive", "-prop", ctx.prop, "-trace", trace, "-tracen", str(tier(ctx, 150000, 1200000)), "-n", str(tier(ctx, 3000, 40000))])
    ctx.mode_trace_validate(trace, "mode-drive")
    d = os.path.join(ctx.work, "msuite")
    os.makedirs(d, exist_ok=True)
    env = dict(ctx.env, REDACT_VERIF_MODE_TRACE=os.path.join(d, "t"))
    r = subprocess.run(["go", "test", "-tags", "verif", "-vet=off", "-count=1", "./..."], cwd=ctx.repo, env=env,
                       capture_output=True, text=True, timeout=1200)
    if r.returncode != 0:
        raise Broken("the repository's test suite fails with the verif tag on:\n" + (r.stdout + r.stderr)[-3000:])
    for k, f in enumerate(sorted(glob.glob(d + "/t.*"), key=os.path.getsize, reverse=True)[:3]):
        if os.path.getsize(f) > 0:
            ctx.mode_trace_validate(f, "repo-test-suite/%d" % k, control=False)


def registry_model(ctx):
    """MCRegistry: every order of registering every subset of four types of four kinds, each behaviour in its own process"""
    ctx.tlc_replay("MCRegistry", "Registry.cfg", ["registry-replay", "-prop", ctx.prop], workers=1)
    # a second family of types: built-in string / int, a named []byte and a named [2]byte (fmt's byte-string paths)
    ctx.tlc_replay("MCRegistry", "Registry.cfg", ["registry-replay", "-prop", ctx.prop], workers=1,
                   consts=dict(Types='{"bstring", "bint", "bytes", "barray", "u8elem"}'))


def c05(ctx):
    registry_model(ctx)
    printer_slice(ctx, tier(ctx, "qcls", "cls"))
    printer_slice(ctx, "dir")
    printer_rnd(ctx)
    mode_traces(ctx)


def c06(ctx):
    printer_slice(ctx, "wrap")
    printer_slice(ctx, tier(ctx, "qcls", "cls"))   # wrappers nested in containers with no wrapper around them
    printer_slice(ctx, "wrap", hook="plain")     # "errors handled by a registered error hook": bypassed under Unsafe()
    printer_rnd(ctx, n=tier(ctx, 800, 8000))
    printer_rnd_hook(ctx)
    mode_traces(ctx)
    printer_control_f3(ctx)


def c11(ctx):
    deep_nesting(ctx)
    pool_stress_race(ctx)   # "never fails" includes the unrecoverable failures: concurrent first uses of new types under the race detector
    printer_panic(ctx)
    printer_slice(ctx, "dir")
    printer_rnd(ctx)
    writer_model(ctx)      # every SafeWriter call sequence incl. JoinTo with non-slice, nil and typed-nil operands: no panic
    buffer_model(ctx, deep=False)
    ctx.harness(["fmtdiff-drive", "-prop", "C11", "-n", str(tier(ctx, 60000, 1500000))])
    if ctx.tier == "thorough":
        printer_slice(ctx, "smoke")
        printer_slice(ctx, "wrap")
        buffer_traces(ctx)
    long_payloads(ctx)


def c15(ctx):
    printer_slice(ctx, tier(ctx, "qerrorf", "errorf"))
    printer_rnd(ctx)
    if ctx.tier == "thorough":
        printer_slice(ctx, "qerrorf", hook="plain")
        printer_slice(ctx, "hook", hook="plain")


def c17(ctx):
    printer_slice(ctx, "hook", hook="plain")
    printer_slice(ctx, "hook", hook="none")
    printer_slice(ctx, "hook", hook="panic")
    printer_slice(ctx, "hook", hook="silent")    # a hook that prints nothing: the operand is still rendered solely by it
    printer_rnd_hook(ctx)
    if ctx.tier == "thorough":
        printer_slice(ctx, "hook", hook="print")
        printer_slice(ctx, "qerrorf", hook="plain")
    # registration is a call like any other: a hook registered or removed after printers were pooled applies at once
    ctx.harness(["pool-history", "-prop", "C17", "-hook", "-depth", "0"])


POOL_KINDS_PLAIN = ["plain", "sprint", "badverb", "widthprec", "fprint", "builder", "markers", "probe-default", "w-outside", "panic-contained", "sprintfn"]


def pool_histories_from_tlc(ctx, num, depth):
    """model -> code: behaviours of the Pool specification (TLC -simulate) turned into histories of real calls:
    every top-level printer lifetime of a behaviour becomes the call kind that makes the real printer live it"""
    import glob, re, subprocess, os, json
    cfg = ctx.write_cfg("Pool.cfg", dict(Printers="MCPrinters2", Arrays="MCArrays2", MaxNest=2,
                                         Features='{"nested", "override", "wrap", "big"}'))
    src = open(os.path.join(ctx.specw, cfg)).read().replace("SYMMETRY Sym\n", "")
    open(os.path.join(ctx.specw, cfg), "w").write(src)
    simdir = os.path.join(ctx.work, "sim")
    os.makedirs(simdir, exist_ok=True)
    cmd = ["timeout", "300", "tlc", "-workers", "1", "-metadir", os.path.join(ctx.work, "mdsim"), "-config", cfg,
           "-simulate", "file=%s/b,num=%d" % (simdir, num), "-depth", str(depth), "-seed", str(ctx.seed), "MCPool.tla"]
    r = subprocess.run(cmd, cwd=ctx.specw, env=ctx.tlc_env(), capture_output=True, text=True)
    files = sorted(glob.glob(simdir + "/b_*"))
    if not files:
        raise Broken("TLC -simulate wrote no behaviour:\n" + r.stdout[-2000:])
    hists = []
    for fn in files:
        acts = re.findall(r"^\\\* <(\w+)\(([^)]*)\)", open(fn).read(), re.M)
        life, order, nested = {}, [], set()
        for name, args in acts:
            a = [x.strip().strip('"') for x in args.split(",")]
            p = a[0]
            if name == "Get":
                life[p] = dict(flags=set())
                order.append((p, life[p]))
            elif p in life:
                fl = life[p]["flags"]
                if name == "NestedBegin":
                    fl.add("lends")
                    nested.add(id(life.get(a[1], {})))
                    if a[1] in life:
                        life[a[1]]["parent"] = life[p]
                elif name == "Write" and a[1] == "TRUE":
                    fl.add("big")
                elif name == "Push":
                    fl.add("override-" + a[1])
                elif name == "Abandon":
                    fl.add("abandoned")
                    if "parent" in life[p]:
                        life[p]["parent"]["flags"].add("nested-abandoned")
                else:
                    fl.add(name.lower())
        h = []
        for i, (p, lf) in enumerate(order):
            if id(lf) in nested:
                continue
            fl = lf["flags"]
            if "abandoned" in fl:
                h.append("panic-propagates" if i % 2 == 0 else "sprintfn-panic")
            elif "nested-abandoned" in fl:
                h.append("nested-panic")
            elif "lends" in fl:
                h.append("nested-unsafe" if "override-unsafe" in fl else "nested")
            elif "big" in fl:
                h.append("big")
            elif "setwrap" in fl:
                h.append("errorf-ok" if "wrap" in fl and "misuse" not in fl else ("errorf-misuse" if "misuse" in fl else "errorf-none"))
            elif any(x.startswith("override") for x in fl):
                h.append("override")
            else:
                h.append(POOL_KINDS_PLAIN[(i + len(acts)) % len(POOL_KINDS_PLAIN)])
        if h:
            hists.append(h)
    path = os.path.join(ctx.work, "hists.json")
    json.dump(hists, open(path, "w"))
    ctx.notes.append("%d behaviours of the Pool specification (TLC -simulate, depth %d) mapped to call histories" % (len(hists), depth))
    return path


def pool_stress_race(ctx):
    trace2 = ctx.work + "/pools.ndjson"
    ctx.harness_race(["pool-stress", "-g", "16", "-secs", str(tier(ctx, 3, 60)), "-trace", trace2, "-maxev", str(tier(ctx, 30000, 120000))])


def pool_model(ctx):
    ctx.tlc_only("MCPool", "Pool.cfg", workers=16, consts=dict(Printers="MCPrinters2", Arrays="MCArrays2", SYMMETRY="Sym2", MaxNest=2,
                                                              Features='{"nested", "override", "wrap", "big"}'))
    ctx.tlc_only("MCPool", "Pool.cfg", workers=16)


def pool_history_pairs(ctx):
    """every (prior call, probe) pair of call kinds, probes compared with a fresh process"""
    ctx.harness(["pool-history", "-depth", str(tier(ctx, 1, 2))])


def c12(ctx):
    # the design: exhaustive over interleavings of printer lifetimes
    ctx.tlc_only("MCPool", "Pool.cfg", workers=16, consts=dict(Printers="MCPrinters2", Arrays="MCArrays2", SYMMETRY="Sym2", MaxNest=2,
                                                              Features='{"nested", "override", "wrap", "big"}'))
    ctx.tlc_only("MCPool", "Pool.cfg", workers=16)
    if ctx.tier == "thorough":
        for ft in ('{"nested", "wrap"}', '{"nested", "big"}', '{"override", "wrap", "big"}'):
            ctx.tlc_only("MCPool", "Pool.cfg", workers=16, consts=dict(Features=ft))
        for d in ("take_keeps_buf", "free_keeps_wrapped", "nested_keeps_buf", "restore_forgets"):
            st = ctx.tlc_only("MCPool", "Pool.cfg", workers=16, expect_ok=False,
                              consts=dict(Printers="MCPrinters2", Arrays="MCArrays2", SYMMETRY="Sym2", Defect='"%s"' % d,
                                          Features='{"nested", "override", "wrap"}'))
            ctx.control("Pool specification with the seeded defect %s must violate an invariant" % d,
                        (not st["ok"]) and "is violated" in st["text"])
    # history independence on the printer cases: every case of two slices printed three times in different orders
    printer_slice(ctx, "smoke")
    printer_slice(ctx, tier(ctx, "qcls", "cls"))
    printer_rnd(ctx)
    builder_histories(ctx)   # incl. foreign printing calls between a builder's operations
    # what a type prints as depends on the registry AT THAT MOMENT, not on what it was when the printer in hand was
    # made: registrations happen between prints in every behaviour of MCRegistry (the probes warm the pool)
    registry_model(ctx)
    # model -> code: behaviours replayed as call histories, probes compared with a fresh process
    hists = pool_histories_from_tlc(ctx, tier(ctx, 300, 5000), 40)
    trace = ctx.work + "/poolh.ndjson"
    rep = ctx.harness(["pool-history", "-hist", hists, "-depth", str(tier(ctx, 1, 2)), "-trace", trace])
    if (rep.get("extra") or {}).get("gets_of_recycled_printers", 0) == 0:
        raise Broken("no printer was recycled during the histories: the pool was not exercised")
    ctx.pool_trace_validate(trace, "pool-history")
    # schedules: goroutines x random calls under the race detector, pool events validated
    trace2 = ctx.work + "/pools.ndjson"
    ctx.harness_race(["pool-stress", "-g", "16", "-secs", str(tier(ctx, 3, 60)), "-trace", trace2,
                      "-maxev", str(tier(ctx, 30000, 120000))])
    ctx.pool_trace_validate(trace2, "pool-stress")
    # the same with an error hook registered that yields while it runs: calls on other goroutines must not see
    # that one of them is inside the hook; histories (single-threaded) with the hook as well
    trace3 = ctx.work + "/poolsh.ndjson"
    ctx.harness_race(["pool-stress", "-hook", "-g", "16", "-secs", str(tier(ctx, 2, 30)), "-trace", trace3,
                      "-maxev", str(tier(ctx, 20000, 60000))])
    ctx.pool_trace_validate(trace3, "pool-stress-hook")
    ctx.harness(["pool-history", "-hook", "-depth", str(tier(ctx, 1, 2))])


def c04(ctx):
    sort_model(ctx)
    cfgs, maxtok = tier(ctx, ("{1, 2, 3, 4, 5, 6, 7}", 3), ("{1, 2, 3, 4, 5, 6, 7}", 4))
    ctx.tlc_replay("MCFormat", "Format.cfg", ["format-replay", "-prop", "C04"], consts=dict(MaxTok=maxtok, ArgConfigs=cfgs))
    ctx.harness(["fmtdiff-drive", "-n", str(tier(ctx, 150000, 3000000))])


def c14(ctx):
    ctx.tlc_replay("MCFwd", "Fwd.cfg", ["fwd-replay"], consts=dict(Verbs=tier(ctx, "FewVerbs", "AllVerbs")))


def escape_model(ctx):
    ctx.tlc_replay("MCEscape", "Escape.cfg", ["escape-replay", "-prop", ctx.prop], consts=dict(MaxTok=tier(ctx, 4, 5)))


def c01(ctx):
    buffer_model(ctx)
    buffer_traces(ctx)
    repo_suite_traces(ctx)
    escape_model(ctx)
    writer_model(ctx)
    printer_slice(ctx, tier(ctx, "qbytes", "bytes"))
    printer_slice(ctx, tier(ctx, "qcompose", "compose"), module="MCCompose", cfg="Compose.cfg")
    printer_rnd(ctx)
    printer_panic(ctx)       # F10: panics that cross a nested printer
    builder_histories(ctx)   # the builder observed (accessors), reset and taken at every point: still a redactable
    if ctx.tier == "thorough":
        printer_slice(ctx, "smoke")
        printer_slice(ctx, "dir")
    long_payloads(ctx)
    universe_wellformed(ctx)


def c03(ctx):
    buffer_model(ctx)
    buffer_traces(ctx)
    repo_suite_traces(ctx)
    escape_model(ctx)
    writer_model(ctx)
    printer_slice(ctx, tier(ctx, "qbytes", "bytes"))
    printer_slice(ctx, tier(ctx, "qcompose", "compose"), module="MCCompose", cfg="Compose.cfg")
    printer_rnd(ctx)
    builder_histories(ctx)   # the builder observed (accessors), reset and taken at every point: no envelope spans a line
    if ctx.tier == "thorough":
        printer_slice(ctx, "smoke")
    long_payloads(ctx)
    universe_wellformed(ctx)


def writer_model(ctx):
    """MCWriter: every SafeWriter call sequence on builder / Sprintfn printer / SafeFormat printer in lockstep"""
    consts = tier(ctx, dict(MaxOps=3, OpSetName='"Q"'), dict(MaxOps=3, OpSetName='"T"'))
    ctx.tlc_replay("MCWriter", "Writer.cfg", ["writer-replay", "-prop", ctx.prop], consts=consts, workers=16)


def c09(ctx):
    builder_histories(ctx)
    writer_model(ctx)
    buffer_model(ctx)
    buffer_traces(ctx)
    repo_suite_traces(ctx)
    long_payloads(ctx)


def registry_redactables(ctx):
    """MCRegistry with the redactable types themselves among the registered ones (and a named byte-slice type): what a
    redactable holds inside its envelopes stays there at every position, whatever is registered"""
    ctx.tlc_replay("MCRegistry", "Registry.cfg", ["registry-replay", "-prop", ctx.prop], workers=1,
                   consts=dict(Types='{"rstr", "rbytes", "bytes"}'))


def c08(ctx):
    printer_slice(ctx, tier(ctx, "qcompose", "compose"), module="MCCompose", cfg="Compose.cfg")
    printer_rnd(ctx)
    registry_redactables(ctx)


def deep_nesting(ctx):
    """nesting depths up to 500 (chains of SafeFormatters printing through the printer, nested slices), every route"""
    ctx.harness(["deep-drive", "-prop", ctx.prop])


def c16(ctx):
    deep_nesting(ctx)
    for sl in tier(ctx, ["qcls", "wrap", "smoke", "dir", "qbytes"], ["cls", "wrap", "panic", "smoke", "bytes", "dir", "qerrorf"]):
        printer_slice(ctx, sl, module="MCRoutes", cfg="Routes.cfg")
    routes_rnd(ctx)


def buffermem_model(ctx):
    """BufferMem: the buffer at the level of backing arrays, len/cap and aliasing (struct copies of the value-receiver
    accessors, strings aliasing the array after Take): refinement of the value-level Buffer + C13's aliasing clauses"""
    ctx.tlc_only("BufferMem", "BufferMem.cfg", workers=16, consts=dict(MaxOpsM=tier(ctx, 5, 7), MaxArr=tier(ctx, 18, 24)))
    # the lending protocol of nested printers (F10): with the struct dropped when a panic crosses the nested printer -- the
    # code before the repair -- the outer buffer no longer implements its value-level state
    st = ctx.tlc_only("BufferMem", "BufferMem.cfg", workers=16, expect_ok=False, consts=dict(DefectM='"nested_abandon"', MaxOpsM=5, MaxArr=18))
    ctx.control("BufferMem with the pre-repair lending protocol (nested_abandon) must violate the refinement invariant",
                (not st["ok"]) and "InvRefines is violated" in st["text"])
    # the discipline behind the loan: nobody uses the lender's stale struct meanwhile.  A builder that printed in place
    # (instead of formatting into a printer of its own) and met itself among its operands would (seeded change C01-19)
    st = ctx.tlc_only("BufferMem", "BufferMem.cfg", workers=16, expect_ok=False, consts=dict(DefectM='"observe_while_lent"', MaxOpsM=5, MaxArr=18))
    ctx.control("BufferMem with an accessor on the lender's stale struct during a loan (observe_while_lent) must violate the refinement invariant",
                (not st["ok"]) and "InvRefines is violated" in st["text"])
    if ctx.tier == "thorough":
        for d in ("accessor_in_place", "take_keeps_array", "string_aliases"):
            st = ctx.tlc_only("BufferMem", "BufferMem.cfg", workers=16, expect_ok=False, consts=dict(DefectM='"%s"' % d))
            ctx.control("BufferMem with the seeded defect %s must violate an invariant" % d, (not st["ok"]) and "is violated" in st["text"])


def builder_histories(ctx):
    """every history of <= 5 (6) StringBuilder writes, Reset/Take and accessor calls: always like a new builder"""
    ctx.harness(["builder-drive", "-prop", ctx.prop, "-len", str(tier(ctx, 5, 6))])


def c13(ctx):
    builder_histories(ctx)
    buffer_model(ctx)
    buffermem_model(ctx)
    buffer_traces(ctx)
    repo_suite_traces(ctx)
    long_payloads(ctx)


PRINTER_RULE = ("TLC runs the Printer specification (transcription of printArg/handleMethods/printValue/catchPanic/"
                "badVerb/doPrint/doPrintf/nested printers over abstract operand terms with scripted user methods) on every case "
                "of the named slices and checks the model-level invariants; every case is replayed on the real printer: output "
                "compared byte for byte with the prediction (leaf renderings supplied by fmt), user-method call order compared, "
                "and the property's predicate evaluated on the real output; distinct = distinct real outputs. ")

PROPS = {
    "C12": dict(run=c12, exhaustive=True, rule=(
        "Pool.tla: printer lifetimes (Get, SetWrap, Write, override Push/Pop, %w Wrap/Misuse, nested printers borrowing the "
        "buffer incl. re-allocation, Take, Free, Abandon on a propagating panic) of 2-3 printers interleaved in every order "
        "(= all schedules of the goroutines owning them), with symmetry; invariants: pooled printers are pristine in every "
        "field newPrinter does not re-initialise, no backing array is shared by two printers outside the borrow chain or by "
        "a printer and a returned result. Binding: (1) TLC -simulate behaviours are mapped to histories of real calls "
        "(each printer lifetime -> the call kind that produces it: plain, Safe/Unsafe, bad verb, %w ok/misuse/none, >64 KiB, "
        "nested printers, contained/propagating panics...), replayed with GOMAXPROCS=1 so that the pool hands the same "
        "object back, followed by 21 probes whose results are compared with those of a fresh process; additionally every "
        "sequence of call kinds up to length 1 (quick) / 2 (thorough); (2) 16 goroutines issue random calls under the Go "
        "race detector, every result compared with the fresh-process value; (3) the pool events recorded by the hooks "
        "(get/put/drop with all printer fields) during (1) and (2) are validated by TLC against PoolTrace; distinct = "
        "distinct histories"), assumptions=[
        "the data-race clause is decided by the Go race detector on the executions whose pool events are trace-validated (DESIGN 8)",
        "Width()/Precision() values are observed only when ok (stale values with ok=false are not an observable, DESIGN 11)"]),
    "C08": dict(run=c08, exhaustive=True, rule=PRINTER_RULE + (
        "C08: slice compose: for every payload p over {E2,80,B9,BA,'a',LF} up to 1 (quick) / 2 (thorough) bytes the redactable "
        "r = Sprint(p) is computed by the model (escaped forms, split lines), then printed again with 7 directives "
        "(%v %s %5q %-8x %.1s %d %+v) in 7 container shapes (top, slice, map value with a redactable key, exported and "
        "unexported field, pointer-to-struct, slice inside an unexported field) as RedactableString and RedactableBytes, "
        "concatenated by Sprintf with literals, joined with 3 delimiters and the joined value printed again; model "
        "invariants: identity, concatenation, Redact/Strip distribute, closure; on the real code the expectation is "
        "obtained relationally (same call with plain placeholders) and Join/JoinTo are run on the real strings Also: StringBuilder operands (SafeFormat prints the redactable they hold), reflect.Values obtained through an unexported field, Go-syntax (%#v) printing of typed containers, an empty unsafe operand before a redactable."), assumptions=[
        "%T and %p are excluded (property text)"]),
    "C16": dict(run=c16, exhaustive=True, rule=PRINTER_RULE + (
        "C16: for every case of the slices (classification shapes, wrapper nestings; thorough: also panicking methods, smoke, "
        "concrete hot bytes) TLC evaluates the four routes (direct, StringBuilder.Print/Printf = PreRedactable write of a "
        "finished text, SafePrinter.Print/Printf inside Sprintfn, inside a SafeFormat method) and checks equality up to "
        "merging of adjacent envelopes; on the real code the 4 print-style or 4 printf-style routes are run on the same "
        "operands and compared, Fprint/Fprintf with recording writers that succeed, fail and write short Also: a recording writer that offers WriteString (the text must still come through one Write); the strings returned by the nested routes are kept and re-compared after later prints; pool discipline monitor."), assumptions=[
        "an argument list whose direct printing panics out is outside (a nested route adds a catchPanic layer)"]),
    "C15": dict(run=c15, exhaustive=True, rule=PRINTER_RULE + (
        "C15: slice errorf = formats of 1..3 directives from {%w %v %d %[1]w %[2]w %5w %+w %#w} (quick: 4 of them) x operand "
        "lists of length 0..2 over {error, error+Formatter, error+SafeFormatter, Safe(err), Unsafe(err), nil-receiver error, "
        "nil, int, string, Stringer, panicking error}; model invariant: returned error = statement (modulo the F4 class); the "
        "real HelperForErrorf is judged by the statement: returned error identity, %w text = %v text, misuse reported, text = "
        "Sprintf's, and message/Unwrap of fmt.Errorf for at most one %w and plain operands Quick kinds also error+SafeFormatter, error+SafeMessager, struct operands, %d among the directive pairs."), assumptions=[
        "wrapped operands and '+'/'#' flags on %w are not compared with fmt.Errorf (Go >= 1.20 treats %w flags like %v's; the fork's base does not)",
        "F4, F5 are known findings"]),
    "C17": dict(run=c17, exhaustive=True, rule=PRINTER_RULE + (
        "C17: slice hook = 11 error capability mixes (plain, +Stringer, +Formatter, +SafeFormatter, +SafeMessager, +GoStringer, "
        "+SafeValue, registered type, nil receiver, panicking Error, non-error) x 10 positions (top, Safe, Unsafe, slice, map "
        "key/value, exported/unexported field, pointer-to-struct, inside Unsafe) x 8 directives + Sprint + %w / %w%w through "
        "HelperForErrorf, under hook kinds plain (safe+unsafe emitters), print (nested Print), panic, and none; the real hook "
        "records every invocation (error identity, verb) which must equal what the statement names Also: %w spelled with flag / width / index; a panic in the hook must not reach the caller; the hook registered or removed after printers were pooled applies at the next call (pool-history -hook); absolute expectation for an error chain rendered through the hook."), assumptions=[
        "an error printed inside a bad-verb report (erroring) or behind an unexported field is not formatted through method dispatch"]),
    "C02": dict(run=c02, exhaustive=True, rule=PRINTER_RULE + (
        "C02: each case is run twice with two instantiations of every payload the statement does not declare safe "
        "(strings with disjoint sentinel alphabets, equal emptiness and line-feed skeleton; distinct numbers), public "
        "payloads shared; Redact() of both results must be byte-identical and free of sentinels. Slices: classification "
        "shapes x leaf kinds x verbs (cls), wrapper nestings (wrap), panicking methods (panic) Further stages: FmtSort/MCSort (order of map entries: every key set of <= 3/4 keys of 9 kinds; real maps with the keys at the extremes of their range and an order-isomorphic tame instantiation must redact identically); maporder-drive (11 key kinds x all subsets of size 2-3 of a 7-point alphabet); secrets-drive (the fmt-compatible universe of C04 plus 31 redact-specific values built from two secrets x 18 verbs x flag grid + random multi-operand formats); the underlying values of model objects are secrets unless declared safe; control: the pre-repair model of F8 must violate the classification invariant."), assumptions=[
        "pointer values and type names are public; cases printing pointer addresses are skipped (addresses differ per allocation)",
        "container lengths, emptiness and line-feed positions are part of the shape (property text)"]),
    "C05": dict(run=c05, exhaustive=True, rule=PRINTER_RULE + (
        "C05: slice cls = 10 container shapes (top, two operands, slice, map value, map key, struct exported/unexported, "
        "pointer-to-struct, nested, interface field) x 13 x 13 leaf kinds (unsafe string/int/bool/float, SafeValue, "
        "SafeValue+Stringer, registered type, SafeMessager, Stringer, error, nil, Safe(string), Safe(int)) x 10 directives "
        "+ Sprint; model invariant: deleting envelopes leaves all structure and exactly the tokens the statement-level "
        "classification (an inherited attribute, independent of modes/overrides) declares safe; the same equation is "
        "evaluated on the real output with the Go port of that classification Further stages: MCRegistry (every order of registering every subset of four types of four kinds, each behaviour in a process of its own, probes after every registration); struct types registered as safe; mode_traces (the mode monitor on the whole value universe and ModeTrace validation of the mode/override events of mode-drive and of the repository test suite)."), assumptions=[
        "<nil>, type names, field names and punctuation are structure (visible); a SafeValue behind an unexported field is "
        "treated as unsafe by the code (over-redaction, accepted, DESIGN 11)"]),
    "C06": dict(run=c06, exhaustive=True, rule=PRINTER_RULE + (
        "C06: slice wrap = 27 values x (12 without own classification, 15 with: SafeValue, registered, SafeMessager, "
        "Safe(), RedactableString, SafeFormatter scripts calling Print/Printf/Safe*/Unsafe*/Write, Formatters that "
        "discover the SafePrinter and call Print/Printf) x 9 wrapper nestings (U S US SU UUS SSU USU and inside slices) "
        "x 9 directives + Sprint; predicates on the real output: Unsafe-outermost => nothing of the operand outside "
        "envelopes; Safe-outermost of an unclassified value => no envelope; characters equal fmt's Further stages: the wrap slice also with the error hook installed (bypassed under Unsafe()); mode_traces: mode monitor (no write outside the unsafe mode under an Unsafe() override, none in it under Safe(); nested printers count under their parent) + ModeTrace."), assumptions=[
        "the 'characters are fmt's' clause is applied to Unsafe(x) for fmt-compatible x and to Safe(x) for x without own classification; %T and %p excluded"]),
    "C11": dict(run=c11, exhaustive=True, rule=PRINTER_RULE + (
        "C11: slice panic = 6 payload kinds x 16 panicking objects (every method kind; SafeFormat/Format scripts with the "
        "panic after 0..3 writes, inside nested Print/Printf, nil receivers) x 6 contexts (top, Safe, Unsafe, slice, struct "
        "fields exported/unexported) x 4 directives + Sprint, each also with hot payloads; plus the exhaustive buffer model "
        "with every rune class incl. surrogates, negative and > U+10FFFF Further stages: the panic-twin relational oracle (same call with placeholders where methods would panic); MCWriter call sequences incl. JoinTo on nil / non-slice / typed-nil operands; fmt differential (no panic where fmt has none); long-drive (payload lengths around the size thresholds)."), assumptions=[
        "a panic raised while printing the panic payload propagates, as in fmt (property text)"]),
    "C04": dict(run=c04, exhaustive=False, rule=(
        "(1) TLC enumerates every format string of at most MaxTok tokens over {% # 0 + - space 1 * . [ ] v d Z e-acute a} for "
        "7 operand configurations and checks the parser invariants; each format is run through redact.Sprintf and fmt.Sprintf "
        "with recording operands and both outputs are compared with the rendering of the model's item list (three parsers are "
        "one) and with each other; (2) random formats (flags x width x precision x index x 27 verbs x literals) and a "
        "systematic verb x flag grid over an 86-value fmt-compatible universe through Sprintf/Sprint/Fprintf/Fprint, judged by "
        "the statement itself; distinct = distinct (route, format, output) triples"), assumptions=[
        "exclusions of the property text: %w, '0' together with '-', redact-specific types",
        "operand strings are valid UTF-8; test Formatters write whole UTF-8 sequences and use Width()/Precision() only when ok",
        "F7 (known finding): format literal ending in a truncated UTF-8 sequence gets the '?' guard"]),
    "C14": dict(run=c14, exhaustive=True, rule=(
        "complete enumeration by TLC of 32 flag subsets x 8 width options (absent,0,1,7,12,1000,*6,*-4) x 7 precision options "
        "(absent,'.',0,1,5,*3,*-1) x verbs (quick: 7, thorough: all 49 ASCII letters except T p w + 3 multi-byte); the model "
        "checks parse -> observe -> MakeFormat -> parse round trip; each directive is replayed with probe Formatters under "
        "real fmt and real redact (Formatter and SafeFormatter), and Safe(x)/Unsafe(x)/a forwarding formatter are compared "
        "with x under fmt for 19 operand kinds"), assumptions=[
        "fmt 1.23 reports Flag('0') differently from the fork when '-' is also present; that combination is not compared "
        "with the model under fmt (still round-trip checked under fmt itself)"]),
    "C07": dict(run=c07, exhaustive=True, rule=(
        "TLC enumerates every string that is a concatenation of at most MaxTok tokens from {start marker, end marker, "
        "cross, LF, 'a', E2, 80, B9, BA} and checks the projection invariants; every such string is given to the real "
        "Redact/StripMarkers/ToBytes/ToString (string and bytes variants) and compared with the model and with the "
        "property's own statement; plus random strings of up to 14 richer tokens, recorded and validated by TLC; "
        "distinct_nontrivial = distinct well-formed inputs with more than one chunk"), assumptions=[
        "F6 (known finding): on invalid UTF-8 a single StripMarkers pass can re-assemble a marker from the bytes around a removed one"]),
    "C10": dict(run=c10, exhaustive=True, rule=(
        "TLC enumerates every byte string of at most MaxTok tokens from {E2,80,B9,BA,'a',space,LF,'?',start marker,end marker} "
        "and checks the escape invariants for every start offset, both line-splitting and both strip settings; each string "
        "is replayed on InternalEscapeBytes (all offsets x flags, input slice checked unmodified), EscapeMarkers, EscapeBytes "
        "and a ManualBuffer in both escaping modes with every split point; plus random strings up to 20 tokens recorded and "
        "validated by TLC; distinct_nontrivial = distinct inputs holding a marker, a LF or a dangling partial sequence"), assumptions=[
        "'ends in a truncated multi-byte sequence' is read as utf8.DecodeLastRune = (RuneError,1), the test the code and the Go standard library share"]),
    "C01": dict(run=c01, rule=BUFFER_RULE, exhaustive=True, assumptions=[
        "raw (PreRedactable) writes are well-formed fragments, the mode's documented precondition"]),
    "C03": dict(run=c03, rule=BUFFER_RULE, exhaustive=True, assumptions=[
        "raw (PreRedactable) writes are well-formed, line-safe fragments"]),
    "C09": dict(run=c09, rule=("MCWriter: TLC enumerates every sequence of at most 3 SafeWriter calls over 24 (quick) / 54 "
        "(thorough) call instances (Safe/Unsafe String, Bytes, Rune, Byte, SafeInt/Uint/Float, Print, Printf, JoinTo, Write, WriteString, "
        "WriteByte, WriteRune with ordinary, marker, marker-look-alike, "
        "LF, empty, truncated-UTF-8 and invalid-rune payloads), runs them in lockstep on the builder model and the printer "
        "model in unsafe (Sprintfn) and safe (SafeFormat) ambient mode, and checks well-formedness, line-safety, the two "
        "denotation equalities and pairwise agreement up to envelope merging; every sequence is replayed on the real "
        "StringBuilder, Sprintfn and SafeFormat printers (byte-exact vs model; predicates from the call history alone). "
        "ManualBuffer: ") + BUFFER_RULE, exhaustive=True, assumptions=[
        "agreement between implementations is claimed for valid UTF-8 payloads (with truncated sequences the '?' guard lands at different points)",
        "the two equalities are claimed for valid UTF-8 payloads and valid runes only (property text)"]),
    "C13": dict(run=c13, rule=BUFFER_RULE, exhaustive=True, assumptions=[
        "Cap() and the aliasing RedactableBytes slice are outside the claim (property text speaks of strings)"]),
}

# what was added after the rule texts above were written (rounds 6-9 of seeded changes, the random slice, F9-F11)
RND = ("Slice rnd: pseudo-random cases, a pure function of (seed, index): 1-3 operand terms up to four levels deep over every "
       "constructor of the term language, formats assembled from literals and directives (quick 1600 / 800 cases, thorough 24000 / 8000), "
       "run through the specification by TLC and replayed like every other slice. ")
ADDENDA = {
    "C01": RND + "Panic slice (panics that cross a nested printer, F10) and the builder histories (accessors, Reset, Take at every point; the builder among its own operands by value, by pointer and nested; a panic that crosses Print with a caller that recovers and keeps the builder) judged by this property's clauses; API slices scribbled before every stage.",
    "C02": RND + "A second pair of instantiations whose secrets start with marker fragments; registry families of built-in / byte-container / byte-kinded element types with leak probes (an unsafe sentinel after the value, next operand, next call) and never-registered namesakes (function-local types with the qualified name of a registered one); every writing interface of package io a builder satisfies.",
    "C03": RND + "Builder histories judged by this property's clauses; ill-formed lines are named here too.",
    "C04": "Width and precision sweep 0..300 and powers of two / ten; narrow kinds inside containers; interface-kinded reflect.Values; maps with nil interface keys.",
    "C05": RND + "Registry families as in C02 plus statically typed slices / arrays of each type; panic payloads classified under the declaration of the object that raised them.",
    "C06": RND + "The envelope clauses at every depth of an operand (qcls and rnd); precision-only and flagged directives around the plain values; whole rnd operand lists compared with fmt's characters for the operands without wrappers.",
    "C07": "The bytes next to the markers' third byte (U+2038, U+203B) in every alphabet.",
    "C08": RND + "Absolute clause: no quotation mark next to a redactable; operands are read-only; the redactable types themselves registered as safe (leak probes behind unexported fields).",
    "C09": "Every SafeWriter method and a marker split over two safe calls in the quick set; io interface probes.",
    "C10": "Buffer histories judged by this property's own clauses (well-formed, stripped text = escaped payload history).",
    "C11": RND + "StringWithoutMarkers of every SafeFormatter operand; panics crossing nested printers (F10).",
    "C12": RND + "(as histories re-run in another order); call kinds with caller-made pre-redacted operands, zero precision after widths, explicit indexes then surplus operands; MCRegistry behaviours (registrations between prints); fresh struct types under the race detector.",
    "C13": "Echo operations, epoch twins, boundary splits, a caller-made pre-redacted operand (F11) in builder-drive; accessor / Take agreement on ManualBuffer in every mode; BufferMem models the lending protocol of nested printers (F10) with the pre-repair variant as a control.",
    "C14": "Width / precision sweep 0..300; the width and precision a method observes compared with fmt's; values that print differently at 32 and 64 bits.",
    "C15": RND + "Formatter errors that show the verb and the flags they are called with; errors with an empty message; pre-redacted operands (F9).",
    "C16": RND + "(through MCRoutes); a priming HelperForErrorf call before every route; writers that fail after a partial write; redactables with empty envelopes.",
    "C17": RND + "(hook installed: no invocation for an error under Unsafe at any depth); hook kind silent (prints nothing: still the sole renderer); surplus operands (no directive for them) that hold errors at top level, in slices, maps and exported interface fields, through Sprintf, Fprintf and StringBuilder.Printf.",
}
for _k, _v in ADDENDA.items():
    PROPS[_k]["rule"] = PROPS[_k]["rule"].rstrip() + " Later additions: " + _v
