package main

import (
	"bytes"
	"flag"
	"fmt"
	"math/rand"
	"runtime"
	"sync"

	"github.com/cockroachdb/redact"
	"github.com/cockroachdb/redact/internal/buffer"
	"github.com/cockroachdb/redact/internal/escape"
	"github.com/cockroachdb/redact/verifharness/lib"
)

// shard runs fn(n items) split over all CPUs with independent seeded RNGs.
func shard(n int, seed int64, fn func(r *rand.Rand, count int)) {
	w := runtime.NumCPU()
	var wg sync.WaitGroup
	for i := 0; i < w; i++ {
		cnt := n / w
		if i < n%w {
			cnt++
		}
		wg.Add(1)
		go func(i, cnt int) {
			defer wg.Done()
			fn(rand.New(rand.NewSource(seed*7919+int64(i))), cnt)
		}(i, cnt)
	}
	wg.Wait()
}

// markers-drive: random longer strings for C07 (beyond the exhaustive bound),
// judged model-free and recorded for TLC trace validation.
func markersDrive(args []string) {
	fs := flag.NewFlagSet("markers-drive", flag.ExitOnError)
	n := fs.Int("n", 20000, "")
	trace := fs.String("trace", "", "NDJSON file for TLC")
	tracen := fs.Int("tracen", 2000, "")
	maxTok := fs.Int("maxtok", 14, "")
	fs.Parse(args)
	rep := lib.NewReport("C07", "markers-drive")
	tw := lib.NewTraceWriter(*trace, *tracen)
	shard(*n, lib.Seed(), func(r *rand.Rand, cnt int) {
		for i := 0; i < cnt; i++ {
			var s []byte
			if r.Intn(3) == 0 {
				// a well-formed one: random chunks
				k := r.Intn(5)
				for j := 0; j < k; j++ {
					txt := lib.ReplaceMarkers(lib.RandBytes(r, lib.PayloadTokens, 4), []byte{'?'})
					if r.Intn(2) == 0 {
						s = append(append(append(s, lib.StartM...), txt...), lib.EndM...)
					} else {
						s = append(s, txt...)
					}
				}
			} else {
				s = lib.RandBytes(r, lib.PayloadTokens, *maxTok)
			}
			rep.Guard("markers:panic", markersCase{"markers", s}, func() { judgeMarkers(rep, s, nil) })
			if i%8 == 0 {
				// long inputs in pairs that differ in one byte (same length): a result must be a function of its input
				// alone, whatever was redacted or stripped just before
				var long []byte
				for len(long) < 64+r.Intn(240) {
					txt := lib.ReplaceMarkers(lib.RandBytes(r, lib.PayloadTokens, 6), []byte{'?'})
					txt = bytes.ReplaceAll(txt, []byte{'\n'}, []byte{' '})
					if r.Intn(2) == 0 {
						long = append(append(append(long, lib.StartM...), txt...), lib.EndM...)
					} else {
						long = append(append(long, txt...), 'k')
					}
				}
				twin := append([]byte(nil), long...)
				for tries := 0; tries < 20; tries++ {
					j := r.Intn(len(twin))
					if twin[j] >= 'a' && twin[j] <= 'y' {
						twin[j]++
						break
					}
				}
				rep.Guard("markers:panic", markersCase{"markers", long}, func() {
					_ = redact.RedactableString(long).Redact()
					_ = redact.RedactableString(long).StripMarkers()
					judgeMarkers(rep, twin, nil)
					judgeMarkers(rep, long, nil)
				})
			}
			if !tw.Full() && len(s) <= 60 {
				rep.Guard("markers:panic", markersCase{"markers", s}, func() {
					rs := redact.RedactableString(s)
					tw.Emit(map[string]interface{}{"k": "markers", "s": lib.B(s), "strip": lib.B(rs.StripMarkers()),
						"redact": lib.B(rs.Redact()), "esc": lib.B(redact.EscapeMarkers(append([]byte(nil), s...))), "wf": lib.WellFormed(s)})
				})
			}
		}
	})
	rep.Extra["trace_events"] = tw.Close()
	rep.Finish()
}

// escape-drive: random longer byte strings for C10.
func escapeDrive(args []string) {
	fs := flag.NewFlagSet("escape-drive", flag.ExitOnError)
	n := fs.Int("n", 20000, "")
	trace := fs.String("trace", "", "")
	tracen := fs.Int("tracen", 2000, "")
	maxTok := fs.Int("maxtok", 20, "")
	fs.Parse(args)
	rep := lib.NewReport("C10", "escape-drive")
	tw := lib.NewTraceWriter(*trace, *tracen)
	shard(*n, lib.Seed(), func(r *rand.Rand, cnt int) {
		for i := 0; i < cnt; i++ {
			b := lib.RandBytes(r, lib.PayloadTokens, *maxTok)
			rep.Guard("escape:panic", escapeCase{"escape", b}, func() { judgeEscape(rep, b, nil) })
			if !tw.Full() && len(b) <= 60 {
				rep.Guard("escape:panic", escapeCase{"escape", b}, func() { recordEscape(tw, r, b) })
			}
			if false {
				k := r.Intn(len(b) + 1)
				brk, strip := r.Intn(2) == 0, r.Intn(4) == 0
				res := escape.InternalEscapeBytes(append([]byte(nil), b...), k, brk, strip)
				tw.Emit(map[string]interface{}{"k": "escape", "b": lib.B(b), "at": k, "brk": brk, "strip": strip, "res": lib.B(res)})
				tw.Emit(map[string]interface{}{"k": "escbytes", "b": lib.B(b), "res": lib.B(redact.EscapeBytes(b))})
			}
		}
	})
	rep.Extra["trace_events"] = tw.Close()
	rep.Finish()
}

func recordEscape(tw *lib.TraceWriter, r *rand.Rand, b []byte) {
	k := r.Intn(len(b) + 1)
	brk, strip := r.Intn(2) == 0, r.Intn(4) == 0
	res := escape.InternalEscapeBytes(append([]byte(nil), b...), k, brk, strip)
	tw.Emit(map[string]interface{}{"k": "escape", "b": lib.B(b), "at": k, "brk": brk, "strip": strip, "res": lib.B(res)})
	tw.Emit(map[string]interface{}{"k": "escbytes", "b": lib.B(b), "res": lib.B(redact.EscapeBytes(b))})
}

// rawFragments are well-formed, line-safe pieces a PreRedactable write may carry.
func rawFragment(r *rand.Rand) []byte {
	switch r.Intn(6) {
	case 0:
		return nil
	case 1:
		return []byte("raw")
	case 2:
		return lib.RedactedM
	case 3:
		return []byte(redact.EscapeBytes(lib.RandBytes(r, lib.PayloadTokens, 3)))
	case 4:
		return []byte(redact.Sprint(string(lib.RandBytes(r, lib.ValidTokens, 3)), 12))
	default:
		return []byte("a\n‹b›\n")
	}
}

var bigLens = []int{61, 62, 63, 64, 65, 66, 67, 127, 128, 129, 130}

func randBOp(r *rand.Rand, mode int) BOp {
	switch k := r.Intn(20); {
	case k < 8:
		if mode == 2 {
			return BOp{Op: "W", P: rawFragment(r)}
		}
		p := lib.RandBytes(r, lib.PayloadTokens, 3)
		if r.Intn(40) == 0 {
			p = append(p, make([]byte, bigLens[r.Intn(len(bigLens))])...)
			for i := range p {
				if p[i] == 0 {
					p[i] = 'z'
				}
			}
		}
		return BOp{Op: "W", P: p}
	case k < 10:
		c := []int{'a', '\n', ' ', '?', 0xE2, 0x80, 0xB9, 0xBA, 0xFF, 0xC3, 0xB8, 0xBB}[r.Intn(12)]
		if mode == 2 {
			c = []int{'a', '\n', ' '}[r.Intn(3)]
		}
		return BOp{Op: "WB", N: c}
	case k < 12:
		c := []int{'a', '\n', 0x2039, 0x203A, 0xD7, 0x1F600, 0xD800, -1, 0x110000, 0xFFFD, 0xE9, 0x2038, 0x203B}[r.Intn(13)]
		if mode == 2 {
			c = []int{'a', '\n', 0xE9}[r.Intn(3)]
		}
		return BOp{Op: "WR", N: c}
	case k < 17:
		return BOp{Op: "SM", N: r.Intn(3)}
	case k < 18:
		if r.Intn(3) == 0 {
			return BOp{Op: "GR", N: []int{0, 1, 63, 64, 65, 1000}[r.Intn(6)]}
		}
		return BOp{Op: "RST"}
	case k < 19:
		return BOp{Op: "TK"}
	default:
		return BOp{Op: "ACC"}
	}
}

// buffer-drive: random long histories on a ManualBuffer; every step is
// recorded with its full pre- and post-state for TLC (FuncTrace), and the
// final output is judged by the properties' predicates.
func bufferDrive(args []string) {
	fs := flag.NewFlagSet("buffer-drive", flag.ExitOnError)
	prop := fs.String("prop", "ALL", "")
	n := fs.Int("n", 5000, "histories")
	maxLen := fs.Int("len", 40, "")
	trace := fs.String("trace", "", "")
	tracen := fs.Int("tracen", 20000, "")
	fs.Parse(args)
	rep := lib.NewReport(*prop, "buffer-drive")
	tw := lib.NewTraceWriter(*trace, *tracen)
	shard(*n, lib.Seed(), func(r *rand.Rand, cnt int) {
		for i := 0; i < cnt; i++ {
			L := 1 + r.Intn(*maxLen)
			var h []BOp
			var b buffer.Buffer
			record := !tw.Full()
			func() {
				defer func() {
					if e := recover(); e != nil {
						judgeBuffer(rep, *prop, h, 0, lib.BufState{}, nil, accResult{}, fmt.Sprint(e), "")
					}
				}()
				for j := 0; j < L; j++ {
					o := randBOp(r, int(b.GetMode()))
					h = append(h, o)
					pre := lib.ReadBuf(&b)
					applyBOp(&b, o, 0)
					if record && len(pre.Buf) <= 200 && len(o.P) <= 64 {
						post := lib.ReadBuf(&b)
						tw.Emit(map[string]interface{}{"k": "buf", "pre": pre, "op": o, "post": post, "inv": true})
						if o.Op == "ACC" || j == L-1 {
							tw.Emit(map[string]interface{}{"k": "bufout", "pre": post, "out": lib.B(b.RedactableString())})
						}
					}
					if r.Intn(2) == 0 || j == L-1 {
						// judge every so often and at the end, on a replay (so that variants are exercised too)
						v := r.Intn(4)
						st, out, acc, p, imp := runBufHistory(h, v)
						rep.AddEval(1)
						judgeBuffer(rep, *prop, append([]BOp(nil), h...), v, st, out, acc, p, imp)
						rep.Nontrivial(fmt.Sprintf("%x|%d|%d|%v", st.Buf, st.Valid, st.Mode, st.Open))
					}
				}
			}()
			if i == 0 {
				rep.Sample(map[string]interface{}{"history": histString(h), "real_output": string(b.RedactableString())})
			}
		}
	})
	rep.Extra["trace_events"] = tw.Close()
	rep.Finish()
}

func init() {
	register("markers-drive", "C07: random long strings, judged and recorded", markersDrive)
	register("escape-drive", "C10: random long byte strings, judged and recorded", escapeDrive)
	register("buffer-drive", "random long buffer histories, judged and recorded", bufferDrive)
}
