------------------------------ MODULE PoolTrace ------------------------------
(***************************************************************************)
(* Trace specification for the printer pool (code -> model).  Events are   *)
(* recorded by the hooks in newPrinter / free (build tag verif), ordered   *)
(* by a global sequence number: "get" after ppFree.Get and the             *)
(* re-initialisation, "put" before ppFree.Put, "drop" on the huge-buffer   *)
(* path.  What happens between a get and the matching put is not logged;   *)
(* the specification's Pool!Get / Pool!Free say what must be true AT those *)
(* points whatever happened in between, and that is what is checked:       *)
(*   get(p): p is not live (never handed to two callers), and every field  *)
(*           that can influence the coming call is pristine;               *)
(*   put(p): p is live, pristine, and holds no backing array (every path   *)
(*           detaches the buffer before free);                             *)
(*   drop(p): p is live.                                                   *)
(* A mismatch adds the event index to `bad` and validation continues.      *)
(***************************************************************************)
EXTENDS Integers, Sequences, FiniteSets, TLC, Json

CONSTANT TraceFile
Trace == ndJsonDeserialize(TraceFile)

VARIABLES l, live, pooled, bad
vars == <<l, live, pooled, bad>>

\* the logged fields as the record of Pool!Pristine
FieldsPristine(e) == /\ e.ov = 0 /\ ~e.wrappedErr /\ ~e.argSet
                     /\ e.bufLen = 0 /\ e.bufMode = 0 /\ ~e.bufOpen /\ e.bufValid = 0
ReInitDone(e) == ~e.wrapErrs /\ ~e.panicking /\ ~e.erroring

Init == l = 1 /\ live = {} /\ pooled = {} /\ bad = {}

Ok(e) == CASE e.ev = "get"  -> e.pid \notin live /\ FieldsPristine(e) /\ ReInitDone(e) /\ e.bufCap = 0
           [] e.ev = "put"  -> e.pid \in live /\ FieldsPristine(e) /\ e.bufCap = 0 /\ e.bufArr = 0
           [] e.ev = "drop" -> e.pid \in live
           [] OTHER -> FALSE

Next == /\ l <= Len(Trace)
        /\ LET e == Trace[l] IN
           /\ bad' = IF Ok(e) /\ e.seq = l THEN bad ELSE bad \cup {l}
           /\ live' = IF e.ev = "get" THEN live \cup {e.pid} ELSE live \ {e.pid}
           /\ pooled' = IF e.ev = "put" THEN pooled \cup {e.pid} ELSE pooled \ {e.pid}
        /\ l' = l + 1
Spec == Init /\ [][Next]_vars

Done == (l = Len(Trace) + 1) =>
          PrintT(ToJson([traceresult |-> TRUE, chunk |-> 1, lo |-> 1, hi |-> Len(Trace), nbad |-> Cardinality(bad), bad |-> bad]))
=============================================================================
