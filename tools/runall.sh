#!/bin/sh
# runs every check of a tier sequentially and prints one status line each
tier=${1:-quick}
cd "$(dirname "$0")/.."
for p in C01 C02 C03 C04 C05 C06 C07 C08 C09 C10 C11 C12 C13 C14 C15 C16 C17; do
  s=$(date +%s)
  ./check $p --tier $tier > .runall.$p.log 2>&1
  rc=$?
  e=$(date +%s)
  echo "$p rc=$rc $((e-s))s $(grep -c '^VIOLATION' .runall.$p.log) violations, $(grep -c '^KNOWN-FINDING' .runall.$p.log) known, $(grep -c '^MODEL-DRIFT' .runall.$p.log) drift"
done
# one line that cannot be missed: which checks did not end with rc=0
bad=$(for p in C01 C02 C03 C04 C05 C06 C07 C08 C09 C10 C11 C12 C13 C14 C15 C16 C17; do if grep -q "^VIOLATION\|^BROKEN" .runall.$p.log 2>/dev/null; then printf "%s " $p; fi; done)
echo "SUMMARY tier=$tier not-clean: ${bad:-none}"
