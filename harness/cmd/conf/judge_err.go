package main

import (
	"bytes"
	"encoding/json"
	"errors"
	"fmt"
	"strings"

	"github.com/cockroachdb/redact"
	"github.com/cockroachdb/redact/verifharness/lib"
)

// wDirective describes one %w directive of a format of the errorf slice.
type wDirective struct {
	arg   int // operand index it applies to (-1: missing / bad index)
	sharp bool
	start int // byte offset of the verb
}

// scanW finds the %w directives of a format made of simple directives
// (%[flags][[n]][width]verb) and the operand each one consumes.
func scanW(f string, nargs int) (ws []wDirective, total int) {
	argNum := 0
	for i := 0; i < len(f); i++ {
		if f[i] != '%' {
			continue
		}
		i++
		sharp := false
		for i < len(f) && strings.IndexByte("+-# 0", f[i]) >= 0 {
			if f[i] == '#' {
				sharp = true
			}
			i++
		}
		good := true
		if i < len(f) && f[i] == '[' {
			j := strings.IndexByte(f[i:], ']')
			n := 0
			fmt.Sscanf(f[i+1:i+j], "%d", &n)
			if n >= 1 && n <= nargs {
				argNum = n - 1
			} else {
				good = false
			}
			i += j + 1
		}
		// width / precision: digits, or '*' which consumes an operand whatever its type
		for i < len(f) && (f[i] >= '0' && f[i] <= '9' || f[i] == '.' || f[i] == '*') {
			if f[i] == '*' && argNum < nargs {
				argNum++
			}
			i++
		}
		if i >= len(f) {
			break
		}
		if f[i] == '%' {
			continue
		}
		if f[i] == 'w' {
			total++
			a := argNum
			if !good || a >= nargs {
				a = -1
			}
			ws = append(ws, wDirective{a, sharp, i})
		}
		if good && argNum < nargs {
			argNum++
		}
	}
	return
}

// f4Class: at least two %w of which exactly one is applied to an error operand, all the others landing
// on operands that never reach method dispatch (missing / bad index, nil, basic kinds, strings): the
// known finding F4.  Two %w that both reach dispatch must yield nil and two bad... one bad-verb report.
func f4Class(ws []wDirective, ts []*lib.Term) bool {
	if len(ws) < 2 {
		return false
	}
	errs := 0
	for _, w := range ws {
		if w.arg < 0 {
			continue
		}
		t := ts[w.arg]
		if t.K == "safe" || t.K == "unsafe" {
			t = t.Xs[0]
		}
		switch t.K {
		case "nil", "int", "uint", "string", "bool", "float", "bytes", "rstring", "rbytes":
			continue
		}
		if holdsError(t) == nil {
			return false // reaches handleMethods with a non-error: capture is disabled there
		}
		errs++
	}
	return errs == 1
}

// misusedOnRedactable: how many of the %w directives ws apply to a RedactableString / RedactableBytes operand
// (possibly wrapped in Safe / Unsafe, or handed over as a reflect.Value)
func misusedOnRedactable(ws []wDirective, ts []*lib.Term) int {
	n := 0
	for _, w := range ws {
		if w.arg < 0 {
			continue
		}
		t := ts[w.arg]
		for t.K == "safe" || t.K == "unsafe" || t.K == "rvalue" || t.K == "rvaluero" {
			t = t.Xs[0]
		}
		if t.K == "rstring" || t.K == "rbytes" {
			n++
		}
	}
	return n
}

func holdsError(t *lib.Term) *lib.Term {
	if t.K == "rvalue" {
		t = t.Xs[0] // a reflect.Value operand stands for the value it holds (fmt and redact alike)
	}
	if t.K == "safe" || t.K == "unsafe" {
		t = t.Xs[0]
	}
	if t.K == "obj" {
		for _, c := range t.Caps {
			if c == "ER" {
				return t
			}
		}
	}
	return nil
}

func plainOperands(ts []*lib.Term) bool {
	for _, t := range ts {
		switch t.K {
		case "safe", "unsafe", "rstring", "rbytes":
			return false
		case "obj":
			for _, c := range t.Caps {
				if c == "SF" || c == "SM" || c == "SV" || c == "REG" {
					return false
				}
			}
		}
	}
	return true
}

// plainDeep: at every depth only values that mean the same to fmt and to redact (no wrappers, no redact interfaces, no
// panicking methods, nothing printed as an address)
func plainDeep(ts []*lib.Term) bool {
	ok := true
	walkTerms(ts, func(t *lib.Term) {
		switch t.K {
		case "string", "int", "uint", "bool", "float", "complex", "nil", "slice", "map":
		case "struct":
			if len(t.Caps) > 0 {
				ok = false
			}
		case "obj":
			if len(t.Pan) > 0 || len(t.Scr) > 0 || len(t.FScr) > 0 {
				ok = false
			}
			for _, c := range t.Caps {
				if c != "ER" && c != "ST" && c != "GS" {
					ok = false
				}
			}
		default:
			ok = false
		}
	})
	return ok
}

// judgeC15: HelperForErrorf per the statement.
func judgeC15(rep *lib.Report, c *lib.Ctx, ln *printerLine, res *realResult, hook string, kase json.RawMessage) {
	if ln.C.E != "Errorf" || res.Panicked {
		return
	}
	f := string(c.Subst(ln.C.F))
	desc := caseString(c, ln.C)
	ws, nW := scanW(f, len(ln.C.Ts))
	// (1) the returned error
	var want error
	if nW == 1 && ws[0].arg >= 0 {
		if et := holdsError(ln.C.Ts[ws[0].arg]); et != nil {
			want, _ = c.Value(et).(error)
		}
	}
	if res.Err != want {
		if f4Class(ws, ln.C.Ts) && res.Err != nil {
			rep.Violate("errorf:f4", fmt.Sprintf("%s: format has %d %%w directives but an error (%v) is returned", desc, nW, res.Err), kase)
		} else {
			rep.Violate("errorf:wrong-error", fmt.Sprintf("%s: returned error %v, the statement says %v", desc, res.Err, want), kase)
		}
	}
	// (2) the text
	args := res.Args
	switch {
	case nW == 0:
		if s := redact.Sprintf(f, args...); string(s) != string(res.Out) {
			rep.Violate("errorf:text-differs-from-sprintf", fmt.Sprintf("%s: text %q, Sprintf gives %q", desc, res.Out, s), kase)
		}
	case nW == 1 && want != nil:
		fv := f[:ws[0].start] + "v" + f[ws[0].start+1:]
		if s := redact.Sprintf(fv, args...); string(s) != string(res.Out) {
			if ws[0].sharp {
				rep.Violate("errorf:f5", fmt.Sprintf("%s: %%#w renders %q, %%#v renders %q", desc, res.Out, s), kase)
			} else {
				rep.Violate("errorf:w-not-like-v", fmt.Sprintf("%s: text %q, with %%v instead of %%w %q", desc, res.Out, s), kase)
			}
		}
	}
	// every misuse is reported as a bad verb (the first %w on an error operand is the only good one)
	good := 0
	if len(ws) > 0 && ws[0].arg >= 0 && holdsError(ln.C.Ts[ws[0].arg]) != nil {
		good = 1
	}
	misuse := 0
	for _, w := range ws[good:] {
		if w.arg >= 0 { // MISSING / BADINDEX have their own diagnostics
			if t := ln.C.Ts[w.arg]; t.K == "invalidrv" || (t.K == "rvalue" && t.Xs[0].K == "nil") {
				continue // ... and so has the zero reflect.Value under every verb ("<invalid reflect.Value>", as in fmt.Errorf)
			}
			misuse++
		}
	}
	nestedW := false // an operand whose own SafeFormat prints with %w through the printer: reports of its own
	walkTerms(ln.C.Ts, func(t *lib.Term) {
		for _, op := range t.Scr {
			if op.O == "Printf" && bytes.ContainsRune(c.Subst(op.F), 'w') {
				nestedW = true
			}
		}
	})
	if nestedW {
		// (the nested %w is never a wrapping verb: where the SafeFormat method ran, its report is in the text)
		if bytes.Contains(lib.Strip(res.Out), []byte("a")) && !bytes.Contains(lib.Strip(res.Out), []byte("a%!w(")) && bytes.Contains(res.Out, []byte("a")) && sfDispatched(ln) {
			rep.Violate("errorf:nested-w-accepted", fmt.Sprintf("%s: a %%w issued by an operand's SafeFormat method through the printer was not reported as a bad verb: %q", desc, res.Out), kase)
		}
	} else if got := bytes.Count(lib.Strip(res.Out), []byte("%!w(")) - bytes.Count(lib.Strip(res.Out), []byte("%!w(MISSING)")) - bytes.Count(lib.Strip(res.Out), []byte("%!w(BADINDEX)")); got != misuse {
		sig := "errorf:misuse-not-reported"
		if f4Class(ws, ln.C.Ts) && got < misuse {
			sig = "errorf:f4-text" // the text side of F4: a surplus %w that is accepted renders normally
		} else if onRedactable := misusedOnRedactable(ws[good:], ln.C.Ts); onRedactable > 0 && got == misuse-onRedactable {
			sig = "errorf:f9" // F9: a pre-redacted operand is inserted as it is whatever the verb, %w included
		}
		rep.Violate(sig, fmt.Sprintf("%s: %d misused %%w but %d bad-verb reports in %q", desc, misuse, got, res.Out), kase)
	}
	// (3) fmt.Errorf for at most one %w and plain operands
	// ('+' and '#' on %w: Go >= 1.20 derives plusV/sharpV for %w as for %v, the fork's Go 1.17 base does not)
	if nW <= 1 && hook == "none" && plainOperands(ln.C.Ts) && (currentSlice != "rnd" || plainDeep(ln.C.Ts)) && !(nW == 1 && (ws[0].sharp || strings.Contains(f, "%+w"))) {
		func() {
			defer func() { recover() }()
			e := fmt.Errorf(f, args...)
			if got, want := string(lib.Strip(res.Out)), string(lib.EscapeAll([]byte(e.Error()))); got != want {
				rep.Violate("errorf:fmt-message", fmt.Sprintf("%s: message %q, fmt.Errorf says %q", desc, got, want), kase)
			}
			if u := errors.Unwrap(e); u != res.Err {
				rep.Violate("errorf:fmt-unwrap", fmt.Sprintf("%s: returned %v, fmt.Errorf unwraps to %v", desc, res.Err, u), kase)
			}
		}()
	}
}

// expectedHookCalls: the error operands the statement says the hook renders, in print order.
// nilReceiverHookCalls: how many further invocations concern nil-receiver errors (they cannot be identified in the
// hook's log; each invocation of the "plain" hook still writes its opening "H<")
var nilReceiverHookCalls int

func expectedHookCalls(ts []*lib.Term, entry string, verbs []int) []lib.CallRec {
	n, out := expectedHookCalls2(ts, entry, verbs)
	_ = n
	return out
}

func expectedHookCalls2(ts []*lib.Term, entry string, verbs []int) (nilCalls int, out []lib.CallRec) {
	var walk func(t *lib.Term, verb int, inh string, ro bool, top bool)
	walk = func(t *lib.Term, verb int, inh string, ro bool, top bool) {
		switch t.K {
		case "unsafe":
			return // bypassed under Unsafe
		case "safe":
			if top {
				walk(t.Xs[0], verb, "safe", ro, true)
			}
			return // a nested Safe() is rendered by its SafeMessage (standard fmt)
		case "obj":
			if ro {
				return
			}
			isErr, sf, sm, nilp := false, false, false, false
			for _, c := range t.Caps {
				switch c {
				case "ER":
					isErr = true
				case "SF":
					sf = true
				case "SM":
					sm = true
				case "NILP":
					nilp = true
				}
			}
			if isErr && !sf && !sm && !nilp {
				v := verb
				if v == 'w' {
					v = 'v'
				}
				out = append(out, lib.CallRec{M: "Hook", ID: t.ID, V: v})
			}
			if isErr && !sf && !sm && nilp {
				nilCalls++
			}
			return
		case "slice", "map", "tmap":
			for _, x := range t.Xs {
				walk(x, verb, inh, ro, false)
			}
		case "tslice", "tarray":
			u8 := len(t.Xs) > 0 && t.Xs[0].K == "obj" && func() bool {
				for _, c := range t.Xs[0].Caps {
					if c == "U8" {
						return true
					}
				}
				return false
			}()
			if u8 && (verb == 's' || verb == 'q' || verb == 'x' || verb == 'X') {
				return // a byte string: fmtBytes, no per-element dispatch
			}
			for _, x := range t.Xs {
				walk(x, verb, inh, ro, false)
			}
		case "struct":
			for i, x := range t.Xs {
				walk(x, verb, inh, ro || t.Ro[i], false)
			}
		case "ptrto":
			if top {
				walk(t.Xs[0], verb, inh, ro, false)
			}
		}
	}
	for i, t := range ts {
		if i < len(verbs) {
			if verbs[i] == 'w' && holdsError(t) == nil {
				continue // bad verb: the operand is printed without method dispatch
			}
			walk(t, verbs[i], "none", false, true)
		}
	}
	return nilCalls, out
}

// judgeC17: with a hook installed, exactly the error operands named by the statement go to the hook.
func judgeC17(rep *lib.Report, c *lib.Ctx, ln *printerLine, res *realResult, hook string, kase json.RawMessage) {
	if hook == "none" {
		return
	}
	desc := caseString(c, ln.C)
	if res.Panicked {
		// "a panic in the hook is contained like any other method panic": only a panic raised while printing the
		// panic payload may reach the caller
		if !payloadPanics(ln.C.Ts) {
			rep.Violate("hook:panic-escaped", fmt.Sprintf("%s: panic %s reached the caller", desc, res.PanicVal), kase)
		}
		return
	}
	// the verbs applied to the operands, in order (slice formats: one directive per operand)
	var verbs []int
	if ln.C.E == "Sprint" {
		for range ln.C.Ts {
			verbs = append(verbs, 'v')
		}
	} else {
		f := c.Subst(ln.C.F)
		for i := 0; i < len(f); i++ {
			if f[i] == '%' {
				j := i + 1
				for j < len(f) && !(f[j] >= 'a' && f[j] <= 'z' || f[j] >= 'A' && f[j] <= 'Z') {
					j++
				}
				if j < len(f) {
					verbs = append(verbs, int(f[j]))
				}
				i = j
			}
		}
	}
	// "bypassed under Unsafe()", whatever the shape of the case: no invocation for an error that stands under an Unsafe()
	// declaration (at any depth of the operand, or as the payload of a panic raised there)
	cm := lib.CtxMap(ln.C.Ts)
	for _, x := range res.Calls {
		if x.M == "Hook" && cm[x.ID] == "unsafe" {
			rep.Violate("hook:under-unsafe", fmt.Sprintf("%s: the hook was invoked for error #%d, which stands under Unsafe() (output %q)", desc, x.ID, res.Out), kase)
		}
	}
	if currentSlice != "hook" && currentSlice != "" {
		// the statement-level expectations below are written for the shapes of the hook slice (one directive per
		// operand, the second of two %w a misuse); other slices run with the hook for drift and for the clauses above
		return
	}
	nverbs := len(verbs) // directives in the format
	if ln.C.E == "Errorf" && len(verbs) == 2 && verbs[1] == 'w' {
		verbs = verbs[:1] // the second %w is a misuse: bad verb, no dispatch
	}
	ff := c.Subst(ln.C.F)
	reordered := bytes.Count(ff, []byte("[")) > 0 && !(bytes.Count(ff, []byte("[")) == 1 && bytes.Contains(ff, []byte("[1]")) && nverbs == 1)
	if ln.C.E != "Sprint" && (bytes.ContainsRune(ff, '*') || reordered || nverbs != len(ln.C.Ts)) {
		// the statement-level expectation below pairs directives with operands one to one; formats that consume
		// operands as widths, re-order them or leave some MISSING / EXTRA are the errorf slice's subject (C15)
		return
	}
	payloadErr := false // some method panics with an error VALUE: the report prints it through method dispatch, i.e. the hook
	walkTerms(ln.C.Ts, func(t *lib.Term) {
		for _, p := range t.Pan {
			for _, cp := range p.Caps {
				if cp == "ER" {
					payloadErr = true
				}
			}
		}
	})
	if payloadErr {
		if hook == "plain" && !lib.HasKind(ln.C.Ts, "unsafe") && bytes.Contains(lib.Strip(res.Out), []byte("(PANIC=")) && !bytes.Contains(lib.Strip(res.Out), []byte(" method: H<")) {
			rep.Violate("hook:panic-payload-bypasses-hook", fmt.Sprintf("%s: the error a method panicked with is reported without the hook: %q", desc, res.Out), kase)
		}
		return
	}
	nilCalls, want := expectedHookCalls2(ln.C.Ts, ln.C.E, verbs)
	if hook == "plain" {
		// every invocation of this hook writes "H<" first, also the ones for nil-receiver errors (which the log cannot name)
		if got := bytes.Count(lib.Strip(res.Out), []byte("H<")); got != len(want)+nilCalls {
			rep.Violate("hook:dispatch-count", fmt.Sprintf("%s: the hook's output appears %d times in %q, the statement names %d error operands (%d of them nil receivers)", desc, got, res.Out, len(want)+nilCalls, nilCalls), kase)
		}
	}
	var got []lib.CallRec
	for _, x := range res.Calls {
		if x.M == "Hook" {
			got = append(got, x)
		}
	}
	same := len(got) == len(want)
	for i := 0; same && i < len(got); i++ {
		same = got[i].ID == want[i].ID && got[i].V == want[i].V
	}
	if !same {
		rep.Violate("hook:dispatch", fmt.Sprintf("%s: hook invoked for %v, the statement says %v (output %q)", desc, got, want, res.Out), kase)
	}
	if hook == "silent" && same {
		// rendered solely by the hook: this hook writes nothing, so nothing of the errors it was given may show
		for _, w := range want {
			if t := findTerm(ln.C.Ts, w.ID); t != nil && len(t.B) > 0 && len(t.Pan) == 0 {
				if txt := c.Subst(t.B); bytes.Contains(lib.Strip(res.Out), txt) {
					rep.Violate("hook:not-sole-renderer", fmt.Sprintf("%s: the hook printed nothing for error #%d, yet its text %q is in the output %q", desc, w.ID, txt, res.Out), kase)
				}
			}
		}
	}
	if len(ln.C.Ts) == 1 && ln.C.Ts[0].K == "unsafe" && !bytes.Equal(lib.DeleteEnvelopes(res.Out), visibleLiterals(c, ln)) {
		rep.Violate("hook:unsafe-not-enveloped", fmt.Sprintf("%s: output %q", desc, res.Out), kase)
	}
	// rendered solely by the hook: for a plain error at top level the output between the literals is the hook's text
	if hook == "plain" && len(want) == 1 && len(ln.C.Ts) == 1 && ln.C.Ts[0].K == "obj" && ln.C.E == "Sprintf" {
		t := ln.C.Ts[0]
		if len(t.Pan) == 0 {
			exp := "a H<" + string(rune(want[0].V)) + ":‹" + string(c.Subst(t.B)) + "›> a"
			if lib.CtxMap(ln.C.Ts)[t.ID] == "safe" { // SafeValue / registered: the hook's unsafe calls print safe
				exp = "a H<" + string(rune(want[0].V)) + ":" + string(c.Subst(t.B)) + "> a"
			}
			if string(res.Out) != exp {
				rep.Violate("hook:not-sole-renderer", fmt.Sprintf("%s: output %q, the hook alone would give %q", desc, res.Out, exp), kase)
			}
		}
	}
}

func visibleLiterals(c *lib.Ctx, ln *printerLine) []byte {
	if ln.C.E == "Sprint" {
		return nil
	}
	f := c.Subst(ln.C.F)
	i := bytes.IndexByte(f, '%')
	j := i + 1
	for j < len(f) && !(f[j] >= 'a' && f[j] <= 'z' || f[j] >= 'A' && f[j] <= 'Z') {
		j++
	}
	return append(append([]byte{}, f[:i]...), f[j+1:]...)
}

// sfDispatched: the SafeFormat method of some operand was invoked during the real run of the case
func sfDispatched(ln *printerLine) bool {
	for _, cl := range ln.Calls {
		if cl.M == "SafeFormat" {
			return true
		}
	}
	return false
}
