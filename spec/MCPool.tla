------------------------------- MODULE MCPool -------------------------------
EXTENDS Pool, TLC
CONSTANTS p1, p2, p3, a1, a2, a3
MCPrinters == {p1, p2, p3}
MCArrays == {a1, a2, a3}
MCPrinters2 == {p1, p2}
MCArrays2 == {a1, a2}
Sym == Permutations(MCPrinters) \cup Permutations(MCArrays)
Sym2 == Permutations(MCPrinters2) \cup Permutations(MCArrays2)
=============================================================================
