------------------------------- MODULE Escape -------------------------------
(***************************************************************************)
(* internal/escape/escape.go: InternalEscapeBytes(b, startLoc,             *)
(* breakNewLines, strip), transcribed loop for loop.  The implementation   *)
(* copies on first change; the value computed is the same as with an       *)
(* output slice that starts empty and a copied-up-to index k = 0, which is *)
(* what is modelled (that b is never edited in place is checked by the     *)
(* conformance harness on the real slices).                                *)
(***************************************************************************)
EXTENDS Markers

RECURSIVE RunEnd(_, _)          \* first 0-based index >= i that does not hold NL
RunEnd(b, i) == IF i < Len(b) /\ b[i + 1] = NL THEN RunEnd(b, i + 1) ELSE i

RECURSIVE EscLoop(_, _, _, _, _)
\* i scan index, k copied-up-to, res output so far; result <<k, res>>
EscLoop(b, i, k, res, brk) ==
  IF i >= Len(b) THEN <<k, res>>
  ELSE IF brk /\ b[i + 1] = NL THEN
       LET r1   == res \o Sub(b, k, i)
           r2   == IF HasSuffix(r1, StartM) THEN DropLast(r1, 3) ELSE r1 \o EndM
           last == RunEnd(b, i)
       IN EscLoop(b, last, last, r2 \o Sub(b, i, last) \o StartM, brk)
  ELSE IF IsStartAt(b, i) THEN EscLoop(b, i + 3, i + 3, res \o Sub(b, k, i) \o <<Q>>, brk)
  ELSE IF IsEndAt(b, i)   THEN EscLoop(b, i + 3, i + 3, res \o Sub(b, k, i) \o <<Q>>, brk)
  ELSE EscLoop(b, i + 1, k, res, brk)

TrimFor(b0, startLoc) ==
  LET RECURSIVE T(_, _)
      T(i, end) == IF i < startLoc THEN end
                   ELSE IF b0[i + 1] = NL \/ b0[i + 1] = SP THEN T(i - 1, i)
                   ELSE end
  IN T(Len(b0) - 1, Len(b0))

InternalEscape(b0, startLoc, brk, strip) ==
  LET b  == IF strip THEN Sub(b0, 0, TrimFor(b0, startLoc)) ELSE b0
      lr == EscLoop(b, startLoc, 0, <<>>, brk)
      k  == lr[1]
      res == lr[2]
  IN IF LastRuneInvalid(b) THEN res \o From(b, k) \o <<Q>>
     ELSE res \o From(b, k)

\* rfmt.EscapeBytes (helpers.go): start marker, escaped payload with line splitting, end marker
EscapeBytes(s) == InternalEscape(StartM \o s, 3, TRUE, FALSE) \o EndM
=============================================================================
