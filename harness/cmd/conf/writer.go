package main

import (
	"bytes"
	"encoding/json"
	"flag"
	"fmt"
	"io"
	"os"
	"runtime"
	"strings"
	"unicode/utf8"

	"github.com/cockroachdb/redact"
	"github.com/cockroachdb/redact/verifharness/lib"
)

type writerLine struct {
	H  []lib.SOp     `json:"h"`
	SB []int         `json:"sb"`
	FN []int         `json:"fn"`
	SF []int         `json:"sf"`
	Rt []lib.RtEntry `json:"rt"`
	Ds []int         `json:"ds"`
	Dd []int         `json:"dd"`
	Ok bool          `json:"ok"`
}

type writerCase struct {
	Kind string    `json:"kind"`
	H    []lib.SOp `json:"h"`
}

func runWriterOps(c *lib.Ctx, ops []lib.SOp, w redact.SafeWriter, wr io.Writer) {
	c.RunWriterOps(ops, w, wr)
}

type sfOps struct {
	c   *lib.Ctx
	ops []lib.SOp
}

func (s sfOps) SafeFormat(p redact.SafePrinter, _ rune) { runWriterOps(s.c, s.ops, p, p) }

// runWriters feeds the history to the three implementations of SafeWriter.
func runWriters(c *lib.Ctx, h []lib.SOp) (outs [3][]byte, panicked string) {
	for _, op := range h {
		c.Index(op.Ts)
	}
	defer func() {
		if r := recover(); r != nil {
			panicked = fmt.Sprint(r)
		}
	}()
	// whatever directive an earlier call ended with (flags, width, precision) is that call's business
	pollute := func() { _ = redact.Sprintf("%+08.3f|%-6d|%#x|% d", 1.5, 2, 3, 4) }
	pollute()
	var sb redact.StringBuilder
	runWriterOps(c, h, &sb, &sb)
	s0 := string(sb.RedactableString())
	pollute()
	outs[0] = []byte(s0)
	s1 := string(redact.Sprintfn(func(w redact.SafePrinter) { runWriterOps(c, h, w, w) })) // no copy: the returned string itself
	outs[1] = []byte(s1)
	pollute()
	s2 := string(redact.Sprint(sfOps{c, h}))
	outs[2] = []byte(s2)
	// a result must not change once returned: later printing (here: through pooled printers) must leave it alone
	for i := 0; i < 4; i++ {
		_ = redact.Sprintf("%s|%d|%v", "xxxxxxxxxxxxxxxxxxxxxxxx", 123456789, redact.Safe("yyyyyyyyyyyyyyyyyyyy"))
		var sb2 redact.StringBuilder
		sb2.Printf("%s", "zzzzzzzzzzzzzzzzzzzzzzzzzzzzzzzzzzz")
	}
	if s0 != string(outs[0]) || s1 != string(outs[1]) || s2 != string(outs[2]) {
		panicked = fmt.Sprintf("RESULT-MUTATED: a returned string changed after later print calls: %q / %q / %q", s0, s1, s2)
	}
	return
}

// denoteWriterOps: stripped and visible text per C09, from the calls alone.
// ok = side condition (valid UTF-8 payloads, valid runes, ASCII bytes).
func denoteWriterOps(c *lib.Ctx, h []lib.SOp) (strip, vis []byte, ok bool) {
	ok = true
	add := func(txt []byte, safe, good bool) {
		ok = ok && good
		strip = append(strip, lib.EscapeAll(txt)...)
		if safe {
			vis = append(vis, lib.EscapeAll(txt)...)
		} else {
			vis = append(vis, lib.OnlyNL(txt)...)
		}
	}
	var args func(ts []*lib.Term, printfStyle bool)
	args = func(ts []*lib.Term, printfStyle bool) {
		prevString := false
		for i, t := range ts {
			inner, safe := t, false
			if t.K == "safe" {
				inner, safe = t.Xs[0], true
			}
			isString := t.K == "string"
			if !printfStyle && i > 0 && !isString && !prevString {
				add([]byte{' '}, true, true)
			}
			if t.K == "nil" {
				safe = true // <nil>, in the clear
			}
			txt := []byte(fmt.Sprint(c.Value(inner)))
			add(txt, safe, utf8.Valid(txt))
			prevString = isString
		}
	}
	for _, op := range h {
		switch op.O {
		case "SafeString", "SafeBytes":
			b := c.Subst(op.B)
			add(b, true, utf8.Valid(b))
		case "UnsafeString", "UnsafeBytes", "Write", "WriteString":
			b := c.Subst(op.B)
			add(b, false, utf8.Valid(b))
		case "WriteRune":
			add([]byte(string(rune(op.N))), false, utf8.ValidRune(rune(op.N)))
		case "WriteByte":
			if op.N >= 128 {
				add([]byte{'?'}, false, false)
			} else {
				add([]byte{byte(op.N)}, false, true)
			}
		case "SafeRune":
			add([]byte(string(rune(op.N))), true, utf8.ValidRune(rune(op.N)))
		case "UnsafeRune":
			add([]byte(string(rune(op.N))), false, utf8.ValidRune(rune(op.N)))
		case "SafeByte":
			add([]byte{byte(op.N)}, true, op.N < 128)
		case "UnsafeByte":
			if op.N >= 128 {
				add([]byte{'?'}, false, false)
			} else {
				add([]byte{byte(op.N)}, false, true)
			}
		case "SafeInt":
			add([]byte(fmt.Sprint(op.N)), true, true)
		case "SafeUint":
			add([]byte(fmt.Sprint(uint64(int64(op.N)))), true, true)
		case "SafeFloat":
			add([]byte(fmt.Sprint(c.Value(op.Ts[0]))), true, true)
		case "Print":
			args(op.Ts, false)
		case "JoinTo":
			// the statement of JoinTo: the elements of a slice printed one by one, the delimiter (pre-redacted:
			// passes through as it is) between them; any other operand printed as it is
			t := op.Ts[0]
			if t.K == "slice" || t.K == "tslice" {
				d := c.Subst(op.B)
				for i, x := range t.Xs {
					if i > 0 {
						strip = append(strip, lib.Strip(d)...)
						vis = append(vis, lib.DeleteEnvelopes(d)...)
					}
					args([]*lib.Term{x}, false)
				}
			} else {
				args(op.Ts, false)
			}
		case "Printf":
			// formats of the op sets: literal bytes and %v directives only
			f := c.Subst(op.F)
			k := 0
			for i := 0; i < len(f); i++ {
				if f[i] == '%' && i+1 < len(f) && f[i+1] == '%' {
					add([]byte{'%'}, true, true)
					i++
				} else if f[i] == '%' && i+1 < len(f) && f[i+1] == 'v' {
					args(op.Ts[k:k+1], true)
					k++
					i++
				} else {
					add(f[i:i+1], true, true)
				}
			}
		}
	}
	return
}

func judgeWriter(rep *lib.Report, prop string, c *lib.Ctx, h []lib.SOp, outs [3][]byte, panicked string) {
	kase := writerCase{"writer", h}
	is := func(p string) bool { return prop == p || prop == "ALL" }
	desc := opsString(h)
	if strings.HasPrefix(panicked, "RESULT-MUTATED") {
		rep.Violate("writer:result-mutated", fmt.Sprintf("%s: %s", desc, panicked), kase)
		return
	}
	if panicked != "" {
		if is("C11") || is("C09") {
			rep.Violate("writer:panic", fmt.Sprintf("%s: panic %s", desc, panicked), kase)
		}
		return
	}
	names := []string{"StringBuilder", "Sprintfn", "SafeFormat"}
	ds, dd, ok := denoteWriterOps(c, h)
	for i, out := range outs {
		if !lib.WellFormed(out) {
			if is("C09") || is("C01") {
				rep.Violate("writer:illformed", fmt.Sprintf("%s on %s: %q", desc, names[i], out), kase)
			}
			continue
		}
		if (is("C09") || is("C03")) && !lib.LineSafe(out) {
			rep.Violate("writer:linespan", fmt.Sprintf("%s on %s: %q", desc, names[i], out), kase)
		}
		if is("C09") && ok {
			if got := lib.Strip(out); !bytes.Equal(got, ds) {
				rep.Violate("writer:strip", fmt.Sprintf("%s on %s: stripped %q, the calls say %q", desc, names[i], got, ds), kase)
			}
			if got := lib.DeleteEnvelopes(out); !bytes.Equal(got, dd) {
				rep.Violate("writer:visible", fmt.Sprintf("%s on %s: visible %q, the calls say %q (output %q)", desc, names[i], got, dd, out), kase)
			}
		}
	}
	if is("C09") && ok && lib.WellFormed(outs[0]) && lib.WellFormed(outs[1]) && lib.WellFormed(outs[2]) {
		if !lib.ChunksEqual(lib.NormOf(outs[0]), lib.NormOf(outs[1])) || !lib.ChunksEqual(lib.NormOf(outs[1]), lib.NormOf(outs[2])) {
			rep.Violate("writer:disagree", fmt.Sprintf("%s: builder %q, Sprintfn %q, SafeFormat %q", desc, outs[0], outs[1], outs[2]), kase)
		}
	}
}

func opsString(h []lib.SOp) string {
	var sb bytes.Buffer
	for i, op := range h {
		if i > 0 {
			sb.WriteString("; ")
		}
		switch op.O {
		case "SafeRune", "UnsafeRune", "SafeByte", "UnsafeByte", "SafeInt", "SafeUint", "SafeFloat", "WriteByte", "WriteRune":
			fmt.Fprintf(&sb, "%s(%#x)", op.O, op.N)
		case "Print", "Printf":
			fmt.Fprintf(&sb, "%s(%v %s)", op.O, op.F, termsString(op.Ts))
		case "JoinTo":
			fmt.Fprintf(&sb, "JoinTo(%v, %s)", op.B, termsString(op.Ts))
		default:
			fmt.Fprintf(&sb, "%s(%v)", op.O, op.B)
		}
	}
	return sb.String()
}

// probeIOInterfaces: "direct writes are unsafe" through every writing interface of package io that a StringBuilder or a
// ManualBuffer happens to satisfy (methods can arrive by promotion from an embedded type): whatever the route, bytes
// that did not come through a Safe* call end up inside an envelope, also right after a safe call.
func probeIOInterfaces(rep *lib.Report) {
	const secret = "zq7secret"
	check := func(what string, out redact.RedactableString) {
		rep.AddEval(1)
		if vis := string(lib.DeleteEnvelopes([]byte(out))); strings.Contains(vis, secret) || !lib.WellFormed([]byte(out)) {
			rep.Violate("writer:io-interface", fmt.Sprintf("%s: the bytes written are outside envelopes (or the result is ill-formed): %q", what, out), map[string]string{"kind": "io-interface", "what": what})
		}
	}
	for _, prime := range []string{"", "safe"} {
		mk := func() *redact.StringBuilder {
			var sb redact.StringBuilder
			if prime != "" {
				sb.SafeString("s=")
			}
			return &sb
		}
		{
			sb := mk()
			var w interface{} = sb
			if rf, ok := w.(io.ReaderFrom); ok {
				_, _ = rf.ReadFrom(io.LimitReader(strings.NewReader(secret), 100))
				check("io.ReaderFrom after "+prime, sb.RedactableString())
			}
		}
		{
			sb := mk()
			_, _ = io.Copy(sb, io.LimitReader(strings.NewReader(secret), 100))
			check("io.Copy into the builder after "+prime, sb.RedactableString())
		}
		{
			sb := mk()
			_, _ = io.WriteString(sb, secret)
			check("io.WriteString after "+prime, sb.RedactableString())
		}
		{
			sb := mk()
			_, _ = fmt.Fprintf(sb, "%s", secret)
			check("fmt.Fprintf into the builder after "+prime, sb.RedactableString())
		}
		{
			sb := mk()
			var w interface{} = sb
			if bw, ok := w.(io.ByteWriter); ok {
				for i := 0; i < len(secret); i++ {
					_ = bw.WriteByte(secret[i])
				}
				check("io.ByteWriter after "+prime, sb.RedactableString())
			}
		}
	}
}

func writerReplay(args []string) {
	fs := flag.NewFlagSet("writer-replay", flag.ExitOnError)
	prop := fs.String("prop", "C09", "")
	fs.Parse(args)
	rep := lib.NewReport(*prop, "writer-replay")
	defer installPoolMonitor(rep)()
	probeIOInterfaces(rep)
	lib.Parallel(runtime.NumCPU(), func(emit func([]byte)) {
		_ = lib.TLCLines(os.Stdin, func(raw []byte) { emit(append([]byte(nil), raw...)) })
	}, func(raw []byte) {
		var ln writerLine
		if err := json.Unmarshal(raw, &ln); err != nil || ln.SB == nil && ln.H == nil {
			return
		}
		rep.AddReplayed(1)
		c := lib.NewCtx(nil)
		defer c.Release()
		outs, panicked := runWriters(c, ln.H)
		rep.AddEval(3)
		judgeWriter(rep, *prop, c, ln.H, outs, panicked)
		if panicked != "" {
			rep.DriftAt(opsString(ln.H) + ": real code panicked: " + panicked)
			return
		}
		for i, m := range [][]int{ln.SB, ln.FN, ln.SF} {
			exp, hot := c.Expect(m, ln.Rt)
			if hot {
				rep.Hot()
			} else if !bytes.Equal(outs[i], exp) {
				rep.DriftAt(fmt.Sprintf("%s on implementation %d: real %q, model %q", opsString(ln.H), i, outs[i], exp))
			}
		}
		ds, dd, ok := denoteWriterOps(c, ln.H)
		eds, _ := c.Expect(ln.Ds, ln.Rt)
		edd, _ := c.Expect(ln.Dd, ln.Rt)
		if ok != ln.Ok || (ok && (!bytes.Equal(ds, eds) || !bytes.Equal(dd, edd))) {
			rep.DriftAt(fmt.Sprintf("%s: the Go denotation (%q,%q,%v) and the model's (%q,%q,%v) differ", opsString(ln.H), ds, dd, ok, eds, edd, ln.Ok))
		}
		rep.Nontrivial(string(outs[0]) + "|" + string(outs[1]))
		if len(ln.H) >= 3 {
			rep.Sample(map[string]string{"calls": opsString(ln.H), "builder": string(outs[0]), "sprintfn": string(outs[1]), "safeformat": string(outs[2])})
		}
	})
	rep.Finish()
}

func init() {
	register("writer-replay", "C09: replay MCWriter call sequences on StringBuilder, Sprintfn and SafeFormat printers", writerReplay)
	extraReplayers["writer"] = func(rep *lib.Report, prop string, raw json.RawMessage) {
		var k writerCase
		_ = json.Unmarshal(raw, &k)
		c := lib.NewCtx(nil)
		outs, p := runWriters(c, k.H)
		judgeWriter(rep, prop, c, k.H, outs, p)
	}
}
