------------------------------- MODULE Bytes -------------------------------
(***************************************************************************)
(* Byte strings, the marker constants of internal/markers/constants.go and *)
(* the part of unicode/utf8 that the library depends on (DecodeRune,       *)
(* DecodeLastRune, RuneLen/EncodeRune).  A byte is an integer 0..255, a    *)
(* string is a sequence of bytes, the values are the real byte values so   *)
(* that recorded data from the implementation can be fed to the operators  *)
(* unchanged.  Index arguments named i, j, k are 0-based like Go's.        *)
(***************************************************************************)
EXTENDS Integers, Sequences

Byte == 0..255

StartM    == <<226, 128, 185>>          \* U+2039  E2 80 B9
EndM      == <<226, 128, 186>>          \* U+203A  E2 80 BA
Cross     == <<195, 151>>               \* U+00D7  C3 97
RedactedM == StartM \o Cross \o EndM    \* the redacted marker
Q   == 63                               \* '?', the escape mark
NL  == 10
SP  == 32
RuneErrorBytes == <<239, 191, 189>>     \* U+FFFD

\* b[i:j] with Go's 0-based half-open indexes
Sub(b, i, j) == SubSeq(b, i + 1, j)
From(b, i)   == SubSeq(b, i + 1, Len(b))
DropLast(b, n) == SubSeq(b, 1, Len(b) - n)

HasSuffix(b, s) == Len(b) >= Len(s) /\ SubSeq(b, Len(b) - Len(s) + 1, Len(b)) = s
HasPrefix(b, s) == Len(b) >= Len(s) /\ SubSeq(b, 1, Len(s)) = s
\* bytes.Equal(b[i:i+len(s)], s) guarded by i+len(s) <= len(b)
HasAt(b, i, s)  == i + Len(s) <= Len(b) /\ SubSeq(b, i + 1, i + Len(s)) = s

IsStartAt(b, i)  == HasAt(b, i, StartM)
IsEndAt(b, i)    == HasAt(b, i, EndM)
IsMarkerAt(b, i) == IsStartAt(b, i) \/ IsEndAt(b, i)

RECURSIVE Concat(_)
Concat(ss) == IF ss = <<>> THEN <<>> ELSE Head(ss) \o Concat(Tail(ss))

RECURSIVE CountOf(_, _)
CountOf(b, c) == IF b = <<>> THEN 0 ELSE (IF Head(b) = c THEN 1 ELSE 0) + CountOf(Tail(b), c)

RECURSIVE OnlyOf(_, _)      \* the subsequence of bytes equal to c
OnlyOf(b, c) == IF b = <<>> THEN <<>>
                ELSE (IF Head(b) = c THEN <<c>> ELSE <<>>) \o OnlyOf(Tail(b), c)

Contains(b, c) == \E n \in 1..Len(b) : b[n] = c

InR(x, lo, hi) == lo <= x /\ x <= hi

(***************************************************************************)
(* utf8.DecodeRune, reduced to <<valid, size>>.  An invalid or short       *)
(* encoding is <<FALSE, 1>> (Go: (RuneError, 1)); the empty input is       *)
(* <<FALSE, 0>>.  Table: unicode/utf8 "first" and "acceptRanges".          *)
(***************************************************************************)
(* Values >= 256 are not bytes: they are opaque TOKENS standing for a text  *)
(* the model does not look into (Printer: a leaf rendering supplied by     *)
(* fmt, a payload string).  They behave like one valid ordinary character. *)
IsTok(c) == c >= 256

DecodeFirst(p) ==
  IF Len(p) = 0 THEN <<FALSE, 0>>
  ELSE LET p0 == p[1] IN
    IF p0 < 128 \/ IsTok(p0) THEN <<TRUE, 1>>
    ELSE IF p0 < 194 \/ p0 > 244 THEN <<FALSE, 1>>
    ELSE LET sz == IF p0 < 224 THEN 2 ELSE IF p0 < 240 THEN 3 ELSE 4
             lo == CASE p0 = 224 -> 160 [] p0 = 240 -> 144 [] OTHER -> 128
             hi == CASE p0 = 237 -> 159 [] p0 = 244 -> 143 [] OTHER -> 191
         IN IF Len(p) < sz THEN <<FALSE, 1>>
            ELSE IF ~InR(p[2], lo, hi) THEN <<FALSE, 1>>
            ELSE IF sz = 2 THEN <<TRUE, 2>>
            ELSE IF ~InR(p[3], 128, 191) THEN <<FALSE, 1>>
            ELSE IF sz = 3 THEN <<TRUE, 3>>
            ELSE IF ~InR(p[4], 128, 191) THEN <<FALSE, 1>>
            ELSE <<TRUE, 4>>

RuneStart(c) == c < 128 \/ c >= 192     \* c & 0xC0 != 0x80

RECURSIVE FindStart(_, _, _)
\* the backwards scan of utf8.DecodeLastRune: from 0-based s down to lim
FindStart(p, s, lim) ==
  IF s < lim THEN s
  ELSE IF RuneStart(p[s + 1]) THEN s
  ELSE FindStart(p, s - 1, lim)

(***************************************************************************)
(* utf8.DecodeLastRune(p) = (RuneError, 1): the test escape.go applies to  *)
(* decide whether a '?' must follow a dangling partial sequence.           *)
(***************************************************************************)
LastRuneInvalid(p) ==
  LET end == Len(p) IN
  IF end = 0 THEN FALSE
  ELSE IF p[end] < 128 \/ IsTok(p[end]) THEN FALSE
  ELSE LET lim   == IF end - 4 < 0 THEN 0 ELSE end - 4
           st0   == FindStart(p, end - 2, lim)
           start == IF st0 < 0 THEN 0 ELSE st0
           d     == DecodeFirst(Sub(p, start, end))
       IN IF start + d[2] # end THEN TRUE ELSE ~d[1]

\* valid UTF-8 as a whole (utf8.Valid)
RECURSIVE ValidUTF8(_)
ValidUTF8(p) == IF p = <<>> THEN TRUE
                ELSE LET d == DecodeFirst(p) IN d[1] /\ ValidUTF8(From(p, d[2]))

ValidRune(r) == r >= 0 /\ r <= 1114111 /\ ~(55296 <= r /\ r <= 57343)

(***************************************************************************)
(* utf8.EncodeRune / AppendRune: invalid runes encode as U+FFFD.           *)
(* (utf8.RuneLen returns -1 for them: finding F1.)                         *)
(***************************************************************************)
EncodeRune(r) ==
  IF ~ValidRune(r) THEN RuneErrorBytes
  ELSE IF r < 128 THEN <<r>>
  ELSE IF r < 2048 THEN <<192 + (r \div 64), 128 + (r % 64)>>
  ELSE IF r < 65536 THEN <<224 + (r \div 4096), 128 + ((r \div 64) % 64), 128 + (r % 64)>>
  ELSE <<240 + (r \div 262144), 128 + ((r \div 4096) % 64), 128 + ((r \div 64) % 64), 128 + (r % 64)>>
=============================================================================
