package main

import (
	"encoding/json"
	"flag"
	"fmt"
	"os"

	"github.com/cockroachdb/redact/verifharness/lib"
)

// replay-file re-runs the concrete case stored in a replay file (written when
// a violation was found) against the current /repo build and reports whether
// the violation reproduces.
func replayFile(args []string) {
	fs := flag.NewFlagSet("replay-file", flag.ExitOnError)
	prop := fs.String("prop", "ALL", "")
	hook := fs.String("hook", "", "")
	fs.Parse(args)
	if fs.NArg() != 1 {
		fmt.Fprintln(os.Stderr, "usage: conf replay-file -prop ID file")
		os.Exit(2)
	}
	raw, err := os.ReadFile(fs.Arg(0))
	if err != nil {
		fmt.Fprintln(os.Stderr, err)
		os.Exit(2)
	}
	var doc struct {
		Property string          `json:"property"`
		Stage    string          `json:"stage"`
		Sig      string          `json:"sig"`
		Hook     string          `json:"hook"`
		Case     json.RawMessage `json:"case"`
	}
	if err := json.Unmarshal(raw, &doc); err != nil {
		fmt.Fprintln(os.Stderr, err)
		os.Exit(2)
	}
	os.Setenv("VERIF_NO_REPLAY_FILES", "1")
	rep := lib.NewReport(*prop, "replay-file")
	var kind struct {
		Kind string          `json:"kind"`
		C    json.RawMessage `json:"c"`
	}
	_ = json.Unmarshal(doc.Case, &kind)
	switch {
	case kind.Kind == "buffer":
		var c bufCase
		_ = json.Unmarshal(doc.Case, &c)
		st, out, acc, p, imp := runBufHistory(c.H, c.Variant)
		judgeBuffer(rep, *prop, c.H, c.Variant, st, out, acc, p, imp)
		if c.Variant&4 != 0 {
			_, out0, _, _, _ := runBufHistory(c.H, c.Variant&^4)
			if string(out0) != string(out) {
				rep.Violate("buffer:setmode-noop", "result with SetMode(current mode) before every write differs", c)
			}
		}
		if c.Variant&2 != 0 {
			_, out0, _, _, _ := runBufHistory(c.H, c.Variant&1)
			if string(out0) != string(out) {
				rep.Violate("buffer:accessor", "result with accessor calls differs", c)
			}
		}
	case kind.Kind == "markers":
		var c markersCase
		_ = json.Unmarshal(doc.Case, &c)
		judgeMarkers(rep, c.S, nil)
	case kind.Kind == "escape":
		var c escapeCase
		_ = json.Unmarshal(doc.Case, &c)
		judgeEscape(rep, c.B, nil)
	case kind.Kind == "format":
		var c formatCase
		_ = json.Unmarshal(doc.Case, &c)
		judgeFormat(rep, *prop, c.F, c.Cfg, nil)
	case kind.Kind == "fwd":
		var c fwdCase
		_ = json.Unmarshal(doc.Case, &c)
		judgeFwd(rep, fwdLine{F: c.F, W: c.W, P: c.P, V: int([]rune(string(c.F))[len([]rune(string(c.F)))-1])}, false)
	case kind.Kind == "fmtdiff":
		var c diffCase
		_ = json.Unmarshal(doc.Case, &c)
		runDiff(rep, c)
	case kind.C != nil:
		h := doc.Hook
		if *hook != "" {
			h = *hook
		}
		if h == "" {
			h = "none"
		}
		installHook(h)
		var ln printerLine
		_ = json.Unmarshal(doc.Case, &ln)
		replayPrinterLine(rep, *prop, &ln, doc.Case)
	default:
		if !replayExtra(rep, *prop, kind.Kind, doc.Case) {
			fmt.Fprintln(os.Stderr, "unknown replay case kind", kind.Kind)
			os.Exit(2)
		}
	}
	rep.Finish()
}

// replayExtra is extended by later files (writer, pool, compose cases).
var extraReplayers = map[string]func(rep *lib.Report, prop string, raw json.RawMessage){}

func replayExtra(rep *lib.Report, prop, kind string, raw json.RawMessage) bool {
	if fn, ok := extraReplayers[kind]; ok {
		fn(rep, prop, raw)
		return true
	}
	return false
}

func init() {
	register("replay-file", "re-run the case of a replay file", replayFile)
}
