#!/bin/sh
# evaluates every mutant found under /tmp/mut/Cxx/_mut/k against its own property's check
tier=${1:-quick}
for d in ${MUTROOT:-/tmp/mut}/C*/_mut/*/; do
  [ -f $d/patch.diff ] || continue
  p=$(echo $d | grep -o "C[0-9][0-9]" | head -1)
  k=$(basename $d)
  if [ -f $d/result.$tier.txt ] && [ -z "${FORCE:-}" ]; then echo "$p/$k: $(tr '\n' ' ' < $d/result.$tier.txt)"; continue; fi
  /verif/tools/evalmut.sh $d $p $tier > $d/result.$tier.txt 2>&1
  echo "$p/$k: $(tr '\n' ' ' < $d/result.$tier.txt | cut -c1-200)"
done
