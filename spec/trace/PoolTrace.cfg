SPECIFICATION Spec
CONSTANTS
  TraceFile = "pool.ndjson"
INVARIANT Done
CHECK_DEADLOCK FALSE
