------------------------------ MODULE MCPrinter ------------------------------
(***************************************************************************)
(* Enumerates printing CASES (entry point, format, operand terms) slice by *)
(* slice, runs the Printer specification on each, checks the invariants,   *)
(* and emits case + prediction for replay on the real code.                *)
(* Two levels (root -> case) so that TLC's workers share the work.         *)
(***************************************************************************)
EXTENDS Printer, TLC, Json, FiniteSets

CONSTANTS Slice, EmitOn
VARIABLES c, lvl
vars == <<c, lvl>>

Case(e, f, ts, scr) == [e |-> e, f |-> f, ts |-> ts, scr |-> scr]
NoCase == Case("none", <<>>, <<>>, <<>>)

P(id) == <<PTok + id>>                      \* an opaque non-empty plain payload
Fv == <<37, 118>>   Fs == <<37, 115>>   Fd == <<37, 100>>   Fw == <<37, 119>>   Fq == <<37, 113>>
Fx == <<37, 120>>   FT == <<37, 84>>    Fp == <<37, 112>>   FZ == <<37, 90>>
FplusV == <<37, 43, 118>>   FsharpV == <<37, 35, 118>>   F5v == <<37, 53, 118>>  Fm8d == <<37, 45, 56, 100>>
LitF(b, f) == b \o f
A == 97

Obj(id, caps) == TObj(id, caps, <<SSafeString(<<115, 102>>), SUnsafeString(P(id + 50))>>,
                      <<SWrite(<<102, 109>> \o P(id + 60))>>, P(id + 70), <<>>)

---------------------------------------------------------------------------
\* slice "smoke": hand-picked cases that touch every operator of the model once
SmokeTerms == {
  TStr(1, P(1)), TStr(1, <<A, NL, A>>), TStr(1, <<>>), TStr(1, StartM \o <<A>>), TInt(1, 42), TUint(1, 7), TBool(1), TFloat(1), TNil(1),
  TSafe(2, TStr(1, P(1))), TUnsafe(2, TStr(1, P(1))), TSafe(2, TInt(1, 5)), TUnsafe(2, TInt(1, 5)),
  TSafe(3, TUnsafe(2, TStr(1, P(1)))), TUnsafe(3, TSafe(2, TStr(1, P(1)))),
  TRStr(1, <<A>> \o StartM \o <<A>> \o EndM), TUnsafe(2, TRStr(1, <<A>> \o StartM \o <<A>> \o EndM)),
  TSlice(9, <<TInt(1, 1), TStr(2, P(2)), TNil(3)>>),
  TSlice(9, <<TSafe(2, TStr(1, P(1))), TUnsafe(4, TInt(3, 3))>>),
  TSlice(9, <<TRStr(1, StartM \o <<A>> \o EndM)>>),
  TMap(9, <<TInt(1, 1), TStr(2, P(2)), TInt(3, 2), TSafe(5, TInt(4, 9))>>),
  TStruct(9, <<TInt(1, 1), TStr(2, P(2))>>, <<FALSE, TRUE>>),
  TStruct(9, <<TSafe(2, TStr(1, P(1))), TSafe(4, TStr(3, P(3)))>>, <<FALSE, TRUE>>),
  TStruct(9, <<TNil(1), TUnsafe(3, TInt(2, 2))>>, <<TRUE, FALSE>>),
  TPtrTo(10, TStruct(9, <<TInt(1, 1)>>, <<FALSE>>)), TPtrTo(10, TSlice(9, <<TStr(1, P(1))>>)), TNilPtr(1),
  TUnsafe(10, TSlice(9, <<TSafe(2, TStr(1, P(1)))>>)), TSafe(10, TSlice(9, <<TStr(1, P(1)), TInt(2, 2)>>)),
  Obj(1, {"SF"}), Obj(1, {"SM"}), Obj(1, {"SV"}), Obj(1, {"ER"}), Obj(1, {"FM"}), Obj(1, {"GS"}), Obj(1, {"ST"}), Obj(1, {"REG"}), Obj(1, {}),
  Obj(1, {"SF", "SM", "ER", "FM", "ST"}), Obj(1, {"SM", "ER", "FM"}), Obj(1, {"ER", "ST", "GS"}), Obj(1, {"ST", "SV"}),
  Obj(1, {"ST", "NILP"}), Obj(1, {"SF", "NILP"}), Obj(1, {"ER", "REG"}),
  TUnsafe(2, Obj(1, {"SF", "ST"})), TSafe(2, Obj(1, {"ST"})), TSlice(9, <<Obj(1, {"ER"}), Obj(2, {"SF"})>>),
  TObj(1, {"ST"}, <<>>, <<>>, <<>>, <<TStr(5, P(5))>>),                      \* String() panics
  TObj(1, {"SF"}, <<SSafeString(<<A>>), SUnsafeString(P(2)), SPanic(TStr(5, P(5)))>>, <<>>, <<>>, <<>>),
  TObj(1, {"SF"}, <<SSafeString(<<A>>), SPrint(<<TStr(2, P(2)), TInt(3, 3), TSafe(5, TStr(4, P(4)))>>), SSafeInt(6, 12)>>, <<>>, <<>>, <<>>),
  TObj(1, {"SF"}, <<SPrintf(<<A>> \o Fv \o Fd, <<TStr(2, P(2)), TInt(3, 3)>>), SWrite(P(7)), SUnsafeRune(8249), SSafeRune(8250), SUnsafeByte(226), SSafeByte(A)>>, <<>>, <<>>, <<>>),
  TObj(1, {"SF"}, <<SPrint(<<TObj(2, {"ST"}, <<>>, <<>>, <<>>, <<TStr(5, P(5))>>)>>)>>, <<>>, <<>>, <<>>),
  TObj(1, {"SF"}, <<SSafeString(<<A>>), SPrint(<<TObj(2, {"SF"}, <<SPanic(TStr(5, P(5)))>>, <<>>, <<>>, <<>>)>>)>>, <<>>, <<>>, <<>>),
  TObj(1, {"ST"}, <<>>, <<>>, <<>>, <<TObj(5, {"ST"}, <<>>, <<>>, <<>>, <<TStr(6, P(6))>>)>>),      \* panic payload panics while printed
  TUnsafe(3, TObj(1, {"FM"}, <<>>, <<SDiscover, SPrintf(<<A>> \o Fd \o Fs, <<TInt(4, 1), TSafe(6, TStr(5, P(5)))>>)>>, <<>>, <<>>)),   \* F3
  TObj(1, {"FM"}, <<>>, <<SWrite(P(2)), SDiscover, SSafeString(<<A>>), SPrint(<<TInt(3, 3)>>)>>, <<>>, <<>>)
}
SmokeFormats == {Fv, Fs, Fd, FplusV, FsharpV, F5v, FT, Fq, Fw, LitF(<<A, 32>>, Fv) \o <<32, A>>, FZ, Fm8d}
SmokeRoots == SmokeTerms
SmokeExpand(t) == {Case("Sprintf", f, <<t>>, <<>>) : f \in SmokeFormats}
                  \cup {Case("Sprint", <<>>, <<t>>, <<>>), Case("Sprint", <<>>, <<TInt(90, 1), t, TStr(91, P(91)), t>>, <<>>),
                        Case("Sprintf", Fv, <<t, t>>, <<>>), Case("Sprintf", <<A>>, <<t>>, <<>>), Case("Errorf", Fw \o Fw, <<t, t>>, <<>>),
                        Case("Errorf", Fw, <<t>>, <<>>), Case("Errorf", <<A>> \o Fv, <<t>>, <<>>)}

Roots     == CASE Slice = "smoke" -> SmokeRoots
Expand(r) == CASE Slice = "smoke" -> SmokeExpand(r)

---------------------------------------------------------------------------
VARIABLE root
allvars == <<c, lvl, root>>

Init == lvl = 0 /\ c = NoCase /\ root \in Roots
Next == lvl = 0 /\ lvl' = 1 /\ root' = root /\ c' \in Expand(root)
Spec == Init /\ [][Next]_allvars

Run(k) == CASE k.e = "Sprintf"  -> Sprintf(k.f, k.ts)
            [] k.e = "Sprint"   -> Sprint(k.ts)
            [] k.e = "Errorf"   -> Errorf(k.f, k.ts)
            [] k.e = "Sprintfn" -> Sprintfn(k.scr)

(***************************************************************************)
(* ONE zero-arity definition refers to the printer operators: TLC's        *)
(* start-up level analysis costs several seconds for each such definition. *)
(* Check evaluates the selected invariants on the result of the case and   *)
(* prints case + prediction for the replayer.                              *)
(***************************************************************************)
Holds(name, cond) == IF cond THEN TRUE ELSE PrintT(<<"INVARIANT-FAILED", name, c>>) /\ FALSE

Check == lvl = 1 =>
  LET r == Run(c)  ok == ~Exc(r) IN
  \* C01 / C03 at the model level: whatever is returned is a well-formed, line-safe redactable
  /\ Holds("WellFormed", ok => (WellFormed(Out(r)) /\ LineSafe(Out(r))))
  \* restorer discipline: a top-level call ends with no override and clean flags
  /\ Holds("Restored", ok => (r.ov = "none" /\ ~r.erroring /\ ~r.panicking))
  /\ (EmitOn => PrintT(ToJson([c |-> c, exc |-> ~ok, out |-> IF ok THEN Out(r) ELSE <<>>, rt |-> r.rt,
                                calls |-> r.calls, werr |-> r.wrappedErr])))
=============================================================================
