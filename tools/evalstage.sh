#!/bin/sh
# evalstage.sh <mutdir> <PROP> <stage function>  -- development aid: one stage of stages.py against a seeded change
# (scratch worktree of /repo with the patch applied, removed afterwards; /repo is not touched)
set -u
MUT=$(cd "$1" && pwd); PROP=$2; STAGE=$3
export GOFLAGS=-mod=mod GOPROXY=off GOSUMDB=off GOTOOLCHAIN=local
W=/tmp/mutstage.$$
git -C /repo worktree add -q --detach $W HEAD || exit 2
trap 'git -C /repo worktree remove --force $W >/dev/null 2>&1' EXIT
(cd $W && git apply $MUT/patch.diff) || { echo "patch does not apply"; exit 1; }
cd /verif
VERIF_REPO=$W ./check $PROP --stage $STAGE 2>&1 | grep -E "^VIOLATION|^  [a-z]+:|^MODEL-DRIFT|rejected|BROKEN" | cut -c1-260 | head -${4:-8}
