#!/bin/sh
# evaluates every mutant found under $MUTROOT/Cxx/_mut/k against its own property's check (results cached in
# result.<tier>.txt next to the patch; FORCE=1 re-evaluates).  VERIF_ROOT selects the copy of the machinery,
# JOBS the number of evaluations side by side.
tier=${1:-quick}
R=${VERIF_ROOT:-/verif}
ls -d ${MUTROOT:-/tmp/mut}/C*/_mut/*/ | xargs -P ${JOBS:-1} -I{} sh -c 'd={}; [ -f $d/patch.diff ] || exit 0; p=$(echo $d | grep -o "C[0-9][0-9]" | head -1); k=$(basename $d); if [ ! -f $d/result.'$tier'.txt ] || [ -n "${FORCE:-}" ]; then VERIF_ROOT='$R' '$R'/tools/evalmut.sh $d $p '$tier' > $d/result.'$tier'.txt 2>&1; fi; echo "$p/$k: $(tr "\n" " " < $d/result.'$tier'.txt | cut -c1-200)"'
