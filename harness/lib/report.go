package lib

import (
	"bufio"
	"crypto/sha1"
	"encoding/hex"
	"encoding/json"
	"fmt"
	"io"
	"os"
	"path/filepath"
	"sort"
	"strings"
	"sync"
)

// Violation is a failure of a property's own predicate on a result produced
// by the real code.  Sig is the stable signature matched against
// known_findings.json (call site / input class, never a concrete hash).
type Violation struct {
	Property string          `json:"property"`
	Sig      string          `json:"sig"`
	Detail   string          `json:"detail"`
	Replay   string          `json:"replay"`
	Case     json.RawMessage `json:"case,omitempty"`
}

// Report accumulates what one harness run covered.  It is printed as the
// last stdout line "SUMMARY {json}" and consumed by /verif/check.
type Report struct {
	mu          sync.Mutex
	Property    string                 `json:"property"`
	Stage       string                 `json:"stage"`
	Evaluations int64                  `json:"evaluations"`
	Replayed    int64                  `json:"replayed"` // model transitions replayed on the real code
	Drift       int64                  `json:"drift"`
	DriftEx     []string               `json:"drift_examples,omitempty"`
	Violations  []Violation            `json:"violations"`
	ViolCount   int64                  `json:"violation_count"`
	Distinct    int64                  `json:"distinct_nontrivial"`
	Samples     []interface{}          `json:"samples"`
	Extra       map[string]interface{} `json:"extra,omitempty"`
	distinct    map[string]struct{}
	ReplayDir   string `json:"-"`
	// Filter, when set, selects the violation signatures that belong to the property being decided
	// (a stage shared by several properties evaluates all of its predicates).
	Filter   func(sig string) bool `json:"-"`
	violSeen map[string]int
}

func NewReport(prop, stage string) *Report {
	dir := os.Getenv("VERIF_REPLAY_DIR")
	if dir == "" {
		dir = "/verif/replays"
	}
	return &Report{Property: prop, Stage: stage, distinct: map[string]struct{}{},
		Extra: map[string]interface{}{}, ReplayDir: filepath.Join(dir, prop), violSeen: map[string]int{}}
}

// Nontrivial records one distinct non-trivial case (by key).
func (r *Report) Nontrivial(key string) {
	r.mu.Lock()
	if len(r.distinct) < 5_000_000 {
		h := sha1.Sum([]byte(key))
		r.distinct[string(h[:8])] = struct{}{}
	}
	r.mu.Unlock()
}

func (r *Report) Sample(v interface{}) {
	r.mu.Lock()
	if len(r.Samples) < 6 {
		r.Samples = append(r.Samples, v)
	}
	r.mu.Unlock()
}

// SampleIfFew guarantees a couple of samples whatever the selection rule of a stage.
func (r *Report) SampleIfFew(v interface{}) {
	r.mu.Lock()
	if len(r.Samples) < 2 {
		r.Samples = append(r.Samples, v)
	}
	r.mu.Unlock()
}

func (r *Report) AddEval(n int64) { r.mu.Lock(); r.Evaluations += n; r.mu.Unlock() }

// Count adds n to the named counter in Extra (how often an oracle really applied: a vacuity indicator).
func (r *Report) Count(name string, n int) {
	r.mu.Lock()
	v, _ := r.Extra[name].(int)
	r.Extra[name] = v + n
	r.mu.Unlock()
}
func (r *Report) AddReplayed(n int64) {
	r.mu.Lock()
	r.Replayed += n
	r.mu.Unlock()
}

// Hot counts a replayed case whose prediction is not byte-comparable (see Ctx.Expect).
func (r *Report) Hot() {
	r.mu.Lock()
	n, _ := r.Extra["not_byte_comparable"].(int)
	r.Extra["not_byte_comparable"] = n + 1
	r.mu.Unlock()
}

func (r *Report) DriftAt(msg string) {
	r.mu.Lock()
	r.Drift++
	if len(r.DriftEx) < 12 {
		r.DriftEx = append(r.DriftEx, msg)
	}
	r.mu.Unlock()
}

// Violate records a violation; the replay file holds the concrete case.  At
// most 3 replay files are written per signature.
func (r *Report) Violate(sig, detail string, kase interface{}) {
	if r.Filter != nil && !r.Filter(sig) {
		return
	}
	r.mu.Lock()
	defer r.mu.Unlock()
	r.ViolCount++
	r.violSeen[sig]++
	if r.violSeen[sig] > 3 {
		return
	}
	raw, _ := json.Marshal(kase)
	h := sha1.Sum(append([]byte(r.Property+sig), raw...))
	path := filepath.Join(r.ReplayDir, hex.EncodeToString(h[:6])+".json")
	doc := map[string]interface{}{"property": r.Property, "stage": r.Stage, "sig": sig, "detail": detail, "case": json.RawMessage(raw)}
	if os.Getenv("VERIF_NO_REPLAY_FILES") == "" {
		_ = os.MkdirAll(r.ReplayDir, 0o755)
		f, _ := json.MarshalIndent(doc, "", " ")
		_ = os.WriteFile(path, f, 0o644)
	}
	r.Violations = append(r.Violations, Violation{r.Property, sig, detail, path, raw})
}

func (r *Report) Finish() {
	r.mu.Lock()
	defer r.mu.Unlock()
	r.Distinct = int64(len(r.distinct))
	if r.Samples == nil {
		r.Samples = []interface{}{}
	}
	if r.Violations == nil {
		r.Violations = []Violation{}
	}
	sort.Slice(r.Violations, func(i, j int) bool { return r.Violations[i].Sig < r.Violations[j].Sig })
	out, _ := json.Marshal(r)
	fmt.Println("SUMMARY " + string(out))
}

// Guard runs fn; a panic escaping from the code under test is recorded as a violation
// (no input may make a printing / escaping / building call panic) instead of killing the harness.
func (r *Report) Guard(sig string, kase interface{}, fn func()) {
	defer func() {
		if e := recover(); e != nil {
			r.Violate(sig, fmt.Sprintf("panic in the code under test: %v", e), kase)
		}
	}()
	fn()
}

// TLCLines feeds fn with each JSON object that TLC printed through
// PrintT(ToJson(..)) (a quoted JSON string per line); other lines are ignored.
func TLCLines(in io.Reader, fn func(raw []byte)) error {
	sc := bufio.NewReaderSize(in, 1<<20)
	for {
		line, err := sc.ReadString('\n')
		if len(line) > 0 {
			line = strings.TrimRight(line, "\r\n")
			if strings.HasPrefix(line, "\"") {
				var inner string
				if e := json.Unmarshal([]byte(line), &inner); e == nil {
					fn([]byte(inner))
				}
			} else if strings.HasPrefix(line, "{") {
				fn([]byte(line))
			}
		}
		if err != nil {
			if err == io.EOF {
				return nil
			}
			return err
		}
	}
}

// Parallel runs fn over the items produced by gen on n workers.
func Parallel[T any](n int, gen func(emit func(T)), fn func(T)) {
	ch := make(chan T, 1024)
	var wg sync.WaitGroup
	for i := 0; i < n; i++ {
		wg.Add(1)
		go func() {
			defer wg.Done()
			for it := range ch {
				fn(it)
			}
		}()
	}
	gen(func(t T) { ch <- t })
	close(ch)
	wg.Wait()
}

// B converts a model byte sequence (JSON array of ints) to bytes.
type B []byte

func (b *B) UnmarshalJSON(d []byte) error {
	var xs []int
	if err := json.Unmarshal(d, &xs); err != nil {
		return err
	}
	*b = make([]byte, len(xs))
	for i, x := range xs {
		(*b)[i] = byte(x)
	}
	return nil
}

func (b B) MarshalJSON() ([]byte, error) {
	xs := make([]int, len(b))
	for i, x := range b {
		xs[i] = int(x)
	}
	return json.Marshal(xs)
}

// Q renders bytes for humans (evidence samples, details).
func Q(b []byte) string { return fmt.Sprintf("%q", string(b)) }
