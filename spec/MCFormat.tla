------------------------------ MODULE MCFormat ------------------------------
(***************************************************************************)
(* C04 (parser half), C14: the directive parser on ALL format strings of   *)
(* at most MaxTok tokens over                                              *)
(*   %  #  0  +  -  space  1  *  .  [  ]  v  d  Z  e-acute  a             *)
(* for each operand configuration in ArgConfigs (R = a non-integer         *)
(* operand, I(n) = an int operand usable by '*').                          *)
(***************************************************************************)
EXTENDS Format, TLC, Json

CONSTANTS MaxTok, Tokens, ArgConfigs, EmitOn
VARIABLES f, n, cfg
vars == <<f, n, cfg>>

R    == [isInt |-> FALSE, num |-> 0]
I(k) == [isInt |-> TRUE, num |-> k]
Cfgs == <<  <<>>, <<R>>, <<I(2), R>>, <<R, I(-3), R>>, <<I(1), I(2), R>>, <<R, R, R>>, <<I(2000000), R>>  >>

F16 == {<<37>>, <<35>>, <<48>>, <<43>>, <<45>>, <<32>>, <<49>>, <<42>>, <<46>>, <<91>>, <<93>>,
        <<118>>, <<100>>, <<90>>, <<195, 169>>, <<97>>}
F12 == {<<37>>, <<35>>, <<48>>, <<45>>, <<49>>, <<42>>, <<46>>, <<91>>, <<93>>, <<118>>, <<100>>, <<97>>}

Init == f = <<>> /\ n = 0 /\ cfg \in ArgConfigs
Next == n < MaxTok /\ \E t \in Tokens : f' = f \o t /\ n' = n + 1 /\ cfg' = cfg
Spec == Init /\ [][Next]_vars

args  == Cfgs[cfg]
items == ParseFormat(f, args)
fin   == ParseState(f, args)

InvConsumed == fin.i = Len(f)
InvArgRange == /\ fin.argNum \in 0..Len(args)
               /\ \A k \in 1..Len(items) : items[k].t = "Arg" => items[k].a \in 0..(Len(args) - 1)
InvFlags    == \A k \in 1..Len(items) : items[k].t = "Arg" =>
                  LET fl == items[k].fl IN
                  /\ fl.zero => ~fl.minus
                  /\ fl.widPresent => (fl.wid >= 0 /\ fl.wid <= 9999999)
                  /\ fl.precPresent => (fl.prec >= 0 /\ fl.prec <= 9999999)
                  /\ (fl.sharpV \/ fl.plusV) => items[k].v = VerbV
                  /\ items[k].v = VerbV => (~fl.sharp /\ ~fl.plus)
InvExtra    == (\E k \in 1..Len(items) : items[k].t = "Extra") <=> (~fin.reordered /\ fin.argNum < Len(args))
\* the literal text survives: concatenating Lit items gives f minus the directives
InvLits     == \A k \in 1..Len(items) : items[k].t = "Lit" => (items[k].b # <<>> /\ ~Contains(items[k].b, Pct))

B2N(b, k) == IF b THEN k ELSE 0
Mask(fl) == B2N(fl.sharp, 1) + B2N(fl.zero, 2) + B2N(fl.plus, 4) + B2N(fl.minus, 8) + B2N(fl.space, 16)
            + B2N(fl.plusV, 32) + B2N(fl.sharpV, 64)
Compact(it) == [t |-> it.t, b |-> it.b, a |-> it.a, v |-> it.v, m |-> Mask(it.fl),
                w |-> IF it.fl.widPresent THEN it.fl.wid ELSE -1,
                p |-> IF it.fl.precPresent THEN it.fl.prec ELSE -1]
CompactAll(its) == [k \in 1..Len(its) |-> Compact(its[k])]
Emit == EmitOn => PrintT(ToJson([f |-> f', cfg |-> cfg', items |-> CompactAll(ParseFormat(f', Cfgs[cfg']))]))
=============================================================================
