------------------------------ MODULE MCBuffer ------------------------------
(***************************************************************************)
(* Exhaustive exploration of the buffer state machine: every sequence of   *)
(* Write / WriteByte / WriteRune / SetMode / Reset / Take up to MaxOps     *)
(* operations with every payload over Alpha up to MaxPay bytes (raw-mode   *)
(* writes restricted to the well-formed fragments RawFrags, which is the   *)
(* documented precondition of PreRedactable).                              *)
(*                                                                         *)
(* Variables: st is the real state; dStrip / dSafe are the *denotation*    *)
(* of the history since the last Reset/Take (what StripMarkers and         *)
(* envelope deletion must give, C09), okUTF records whether every payload  *)
(* so far was valid UTF-8 (the side condition of the two equalities);      *)
(* hist is a ghost used only to tell the replayer how to reach the state   *)
(* and is hidden by the VIEW.                                              *)
(***************************************************************************)
EXTENDS Buffer, TLC, Json

CONSTANTS MaxOps, Alpha, MaxPay, ByteArgs, RuneArgs, RawFrags, Spicy, EmitOn

VARIABLES st, dStrip, dSafe, okUTF, hist
vars == <<st, dStrip, dSafe, okUTF, hist>>
view == <<st, dStrip, dSafe, okUTF, Len(hist)>>

\* every payload up to MaxPay bytes, plus longer ones that force a rewrite AND end in a truncated marker
Payloads == UNION {[1..n -> Alpha] : n \in 0..MaxPay} \cup Spicy

Init == st = BInit /\ dStrip = <<>> /\ dSafe = <<>> /\ okUTF = TRUE /\ hist = <<>>

\* denotation of one payload written while the buffer is in mode m
DStrip(m, p) == IF m = MR THEN Strip(p) ELSE EscapeMarkers(p)
DSafe(m, p)  == CASE m = MU -> OnlyOf(p, NL)
                  [] m = MS -> EscapeMarkers(p)
                  [] m = MR -> DeleteEnvelopes(p)

Do(o, p, okp) ==
  /\ Len(hist) < MaxOps
  /\ st' = BStep(st, o)
  /\ hist' = Append(hist, o)
  /\ IF o.op \in {"RST", "TK"}
     THEN dStrip' = <<>> /\ dSafe' = <<>> /\ okUTF' = TRUE
     ELSE /\ dStrip' = dStrip \o DStrip(st.mode, p)
          /\ dSafe'  = dSafe \o DSafe(st.mode, p)
          /\ okUTF'  = (okUTF /\ okp)

\* what a single byte becomes: in unsafe mode bytes >= 0x80 are replaced by '?'
ByteText(m, c) == IF m = MU /\ c >= 128 THEN <<Q>> ELSE <<c>>

Next ==
  \/ \E p \in (IF st.mode = MR THEN RawFrags ELSE Payloads) :
        Do(Op("W", p, 0), p, ValidUTF8(p))
  \* (in raw mode the caller vouches for what it writes: marker bytes fed one by one are outside the precondition)
  \/ \E c \in ByteArgs : (st.mode # MR \/ c < 128) /\
                         Do(Op("WB", <<>>, c), ByteText(st.mode, c), c < 128)
  \/ \E r \in RuneArgs : (st.mode # MR \/ r < 128) /\
                         Do(Op("WR", <<>>, r), EncodeRune(r), ValidRune(r))
  \/ \E m \in Modes : m # st.mode /\ Do(Op("SM", <<>>, m), <<>>, TRUE)
  \/ \E n \in {0, 100} : Do(Op("GR", <<>>, n), <<>>, TRUE)      \* ManualBuffer.Grow: content, mode and pending state untouched
  \/ Do(Op("RST", <<>>, 0), <<>>, TRUE)
  \/ Do(Op("TK", <<>>, 0), <<>>, TRUE)

Spec == Init /\ [][Next]_vars

---------------------------------------------------------------------------
\* Invariants (C01, C03, C09, C13 at the value level)

TypeOK      == BTypeOK(st)
InvWellFormed == WellFormed(BOut(st))                       \* C01
InvLineSafe   == LineSafe(BOut(st))                         \* C03
InvPerLine    == LET out == BOut(st) ls == Lines(out) IN    \* C03: line-wise = whole
                   /\ \A n \in 1..Len(ls) : WellFormed(ls[n])
                   /\ Redact(out) = JoinNL(MapSeq(Redact, ls))
                   /\ Strip(out)  = JoinNL(MapSeq(Strip, ls))
InvDenote   == okUTF => /\ Strip(BOut(st)) = dStrip         \* C09
                        /\ DeleteEnvelopes(BOut(st)) = dSafe
InvLen      == BLen(st) = Len(BOut(st))
\* finalize is idempotent and the accessors leave nothing to do twice (C13 value level)
\* (claimed for valid UTF-8 content: the escaper's guard looks at the last rune of the WHOLE buffer, so after finalize
\*  has trimmed an empty envelope that followed raw-mode bytes ending in a truncated sequence, a second finalize would add
\*  the '?' guard; the real accessors finalize a copy and Take* resets, so no state is ever finalized twice)
InvFinalIdem == okUTF => BFinalize(BFinalize(st)) = BFinalize(st)
\* Reset / Take give the initial state (C13)
InvPristine == BReset(st) = BInit /\ (WellFormed(BOut(st)) => BTake(st) = BInit)
\* the already-validated prefix is never touched again and holds no partial envelope state
InvValidPrefix == st.valid <= Len(st.buf)

\* one JSON line per explored transition: history reaching the post-state + prediction
Emit == EmitOn => PrintT(ToJson([h |-> hist', st |-> st', out |-> BOut(st'),
                                 ds |-> dStrip', dd |-> dSafe', ok |-> okUTF']))

---------------------------------------------------------------------------
\* constant definitions selected by the .cfg files
A6  == {226, 128, 185, 186, 97, 10}
A8  == A6 \cup {32, 63}
A10 == A8 \cup {195, 151}
QByteArgs == {97, 10, 226, 186}
TByteArgs == {97, 10, 63, 226, 128, 185, 186, 255}
QRuneArgs == {97, 8249, 55296, 233}          \* (233 = é: a two-byte rune below U+0100)
TRuneArgs == {97, 10, 8249, 8250, 215, 128512, 55296, -1, 1114112}
\* ... and runes that share bytes with the markers (º = C2 BA, ₺ = E2 82 BA end in the last byte of the end marker)
\* or with the scanner's sentinel (a genuine U+FFFD = EF BF BD)
QSpicy == {<<NL, 226, 128>>, StartM \o <<226, 128>>, <<97, NL, 226>>, <<194, 186>>, <<226, 130, 186>>, RuneErrorBytes}
TSpicy == QSpicy \cup {<<97>> \o RuneErrorBytes, <<194, 185>>, <<226, 128, 187>>, EndM \o <<226>>, <<NL, NL, 226, 128>>, <<226, 128, NL>>, StartM \o <<NL>>, <<195, NL>>}
NoSpicy == {}
QRawFrags == {<<>>, <<97>>, StartM \o <<97>> \o EndM, <<10>>}
TRawFrags == QRawFrags \cup {RedactedM, <<97>> \o StartM \o <<63>> \o EndM \o <<10>>, StartM \o EndM}
=============================================================================
