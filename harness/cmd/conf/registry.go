package main

import (
	"bytes"
	"encoding/json"
	"flag"
	"fmt"
	"os"
	"os/exec"
	"reflect"
	"strings"

	"github.com/cockroachdb/redact"
	"github.com/cockroachdb/redact/verifharness/lib"
)

// registry-replay: the behaviours of MCRegistry (every order of registering every subset of four types of four
// different kinds).  Registrations cannot be undone, so each maximal behaviour runs in a process of its own
// (registry-child), which probes a value of every type in several positions after every registration; the parent
// compares with the specification: a probe is in the clear exactly if its type has been registered by then.

type regI int
type regS string
type regT struct {
	A int
	b string
}
type regF float64

var regTypes = map[string]reflect.Type{
	"int": reflect.TypeOf(regI(0)), "string": reflect.TypeOf(regS("")), "struct": reflect.TypeOf(regT{}), "float": reflect.TypeOf(regF(0)),
	"ptrstruct": reflect.TypeOf(&regT{}),
}

func regValue(t string) interface{} {
	switch t {
	case "int":
		return regI(4711)
	case "string":
		return regS("txt")
	case "struct":
		return regT{7, "f"}
	case "ptrstruct":
		return &regT{7, "f"}
	}
	return regF(2.5)
}

// regProbes prints a value of type t at top level, in a slice, as a map value, as a reflect.Value and in struct fields
func regProbes(t string) []string {
	v := regValue(t)
	if t == "ptrstruct" {
		// below the top level a pointer prints as an address: only the positions that show the pointee
		return []string{string(redact.Sprintf("%v", v)), string(redact.Sprint(reflect.ValueOf(v))), string(redact.Sprintf("%+v|%d", v, 3))}
	}
	return []string{
		string(redact.Sprintf("%v", v)), string(redact.Sprint([]interface{}{v, "u"})), string(redact.Sprintf("%+v", map[string]interface{}{"k": v})),
		string(redact.Sprint(reflect.ValueOf(v))), string(redact.Sprintf("%v", struct{ X, y interface{} }{v, v})),
	}
}

// registry-child -order a,b,c : probes before any registration and after each one
func registryChild(args []string) {
	fs := flag.NewFlagSet("registry-child", flag.ExitOnError)
	order := fs.String("order", "", "")
	fs.Parse(args)
	var steps []map[string][]string
	probeAll := func() {
		m := map[string][]string{}
		for t := range regTypes {
			m[t] = regProbes(t)
		}
		steps = append(steps, m)
	}
	probeAll()
	for _, t := range strings.Split(*order, ",") {
		if t == "" {
			continue
		}
		redact.RegisterSafeType(regTypes[t])
		probeAll()
	}
	out, _ := json.Marshal(steps)
	fmt.Println(string(out))
}

type regLine struct {
	Order []string        `json:"order"`
	Safe  map[string]bool `json:"safe"`
}

func registryReplay(args []string) {
	fs := flag.NewFlagSet("registry-replay", flag.ExitOnError)
	prop := fs.String("prop", "C05", "")
	fs.Parse(args)
	rep := lib.NewReport(*prop, "registry-replay")
	var lines []regLine
	_ = lib.TLCLines(os.Stdin, func(raw []byte) {
		var ln regLine
		if err := json.Unmarshal(raw, &ln); err == nil && ln.Safe != nil {
			lines = append(lines, ln)
			rep.AddReplayed(1)
		}
	})
	// maximal behaviours = the lines that are not a proper prefix of another line
	key := func(o []string) string { return strings.Join(o, ",") }
	isPrefix := map[string]bool{}
	for _, ln := range lines {
		for i := 0; i < len(ln.Order); i++ {
			isPrefix[key(ln.Order[:i])] = true
		}
	}
	expect := map[string]map[string]bool{}
	for _, ln := range lines {
		expect[key(ln.Order)] = ln.Safe
	}
	for _, ln := range lines {
		if isPrefix[key(ln.Order)] {
			continue
		}
		out, err := exec.Command(os.Args[0], "registry-child", "-order", key(ln.Order)).Output()
		if err != nil {
			rep.Violate("registry:child-died", fmt.Sprintf("registering %v then probing: the process died: %v", ln.Order, err), ln)
			continue
		}
		var steps []map[string][]string
		if err := json.Unmarshal(bytes.TrimSpace(out), &steps); err != nil || len(steps) != len(ln.Order)+1 {
			rep.DriftAt("registry-child printed something unexpected for " + key(ln.Order))
			continue
		}
		for i, step := range steps {
			safe := map[string]bool{}
			for _, t := range ln.Order[:i] {
				safe[t] = true
				if t == "struct" {
					safe["ptrstruct"] = true // a pointer shows its pointee, whose type is registered
				}
			}
			if i > 0 {
				if m, ok := expect[key(ln.Order[:i])]; ok {
					for t, s := range m {
						if s != safe[t] {
							rep.DriftAt(fmt.Sprintf("the specification's registry after %v disagrees with the replayer's", ln.Order[:i]))
						}
					}
				}
			}
			for t, probes := range step {
				rep.AddEval(int64(len(probes)))
				for j, p := range probes {
					// the last probe holds the value twice: exported field (registry applies) and unexported field (it applies too: by type)
					enveloped := strings.Contains(p, "‹")
					val := fmt.Sprint(regValue(t))
					if t == "struct" || t == "ptrstruct" {
						val = "7"
					}
					inClear := strings.Contains(string(lib.DeleteEnvelopes([]byte(p))), strings.Trim(val, "{}"))
					if safe[t] && !inClear {
						rep.Violate("registry:registered-type-enveloped", fmt.Sprintf("after registering %v a value of the registered %s type is printed as %q (probe %d)", ln.Order[:i], t, p, j), ln)
					}
					if !safe[t] && inClear {
						rep.Violate("registry:unregistered-type-visible", fmt.Sprintf("after registering %v a value of the %s type, which is not registered, is printed as %q (probe %d)", ln.Order[:i], t, p, j), ln)
					}
					_ = enveloped
				}
			}
		}
		rep.Nontrivial(key(ln.Order))
		rep.SampleIfFew(map[string]interface{}{"registration_order": ln.Order, "probes_per_step": 20})
	}
	rep.Finish()
}

func init() {
	register("registry-child", "C05: register types in the given order, probing after each step (run by registry-replay)", registryChild)
	register("registry-replay", "C05: replay MCRegistry behaviours, each in a process of its own", registryReplay)
}
