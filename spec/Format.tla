------------------------------- MODULE Format -------------------------------
(***************************************************************************)
(* The directive parser of doPrintf (internal/rfmt/print.go:1091-1265)     *)
(* with parsenum, parseArgNumber, argNumber and intFromArg, transcribed    *)
(* statement for statement.  The parser state is the record                *)
(*   [i, argNum, afterIndex, reordered, goodArgNum, fl, items]             *)
(* where fl is the fmt flag record (fmt.fmtFlags + wid + prec) and items   *)
(* is what doPrintf does, in order:                                        *)
(*   Lit(bytes)  Pct  Arg(argNum, verb, flags..)  BadWidth  BadPrec        *)
(*   NoVerb  BadIdx(verb)  Missing(verb)  Extra(firstArg)                  *)
(* An operand is abstracted to what the parser can see of it:              *)
(*   [isInt |-> BOOLEAN, num |-> Int]   (intFromArg).                      *)
(***************************************************************************)
EXTENDS Bytes

Pct  == 37    Sharp == 35   Zero == 48   Plus == 43   Minus == 45
Star == 42    Dot == 46     LBr == 91    RBr == 93    VerbV == 118

TooLarge(x) == x > 1000000 \/ x < -1000000

NoFlags == [sharp |-> FALSE, zero |-> FALSE, plus |-> FALSE, minus |-> FALSE, space |-> FALSE,
            plusV |-> FALSE, sharpV |-> FALSE, widPresent |-> FALSE, precPresent |-> FALSE,
            wid |-> 0, prec |-> 0]
\* clearflags() resets fmtFlags only; wid and prec keep their (stale) values
ClearFlags(fl) == [NoFlags EXCEPT !.wid = fl.wid, !.prec = fl.prec]

Item(t, b, a, v, fl) == [t |-> t, b |-> b, a |-> a, v |-> v, fl |-> fl]
Lit(b)         == Item("Lit", b, 0, 0, NoFlags)
PctItem        == Item("Pct", <<>>, 0, 0, NoFlags)
ArgItem(a, v, fl) == Item("Arg", <<>>, a, v, fl)
BadWidth       == Item("BadWidth", <<>>, 0, 0, NoFlags)
BadPrec        == Item("BadPrec", <<>>, 0, 0, NoFlags)
NoVerb         == Item("NoVerb", <<>>, 0, 0, NoFlags)
BadIdx(v)      == Item("BadIdx", <<>>, 0, v, NoFlags)
Missing(v)     == Item("Missing", <<>>, 0, v, NoFlags)
Extra(a)       == Item("Extra", <<>>, a, 0, NoFlags)

IsDigit(c) == 48 <= c /\ c <= 57

\* parsenum(s, start, end) -> <<num, isnum, newi>>   (0-based, end exclusive)
RECURSIVE ParseNumLoop(_, _, _, _, _)
ParseNumLoop(s, newi, end, num, isnum) ==
  IF newi < end /\ IsDigit(s[newi + 1])
  THEN IF TooLarge(num) THEN <<0, FALSE, end>>
       ELSE ParseNumLoop(s, newi + 1, end, num * 10 + (s[newi + 1] - 48), TRUE)
  ELSE <<num, isnum, newi>>
ParseNum(s, start, end) ==
  IF start >= end THEN <<0, FALSE, end>> ELSE ParseNumLoop(s, start, end, 0, FALSE)

\* first index j >= from with s[j] = ']' , or -1
RECURSIVE FindRBr(_, _)
FindRBr(s, j) == IF j >= Len(s) THEN -1 ELSE IF s[j + 1] = RBr THEN j ELSE FindRBr(s, j + 1)

\* parseArgNumber(format) with format = s[i:]  -> <<index, wid, ok>>
ParseArgNumber(s0, i) ==
  LET s == From(s0, i) IN
  IF Len(s) < 3 THEN <<0, 1, FALSE>>
  ELSE LET j == FindRBr(s, 1) IN
       IF j < 0 THEN <<0, 1, FALSE>>
       ELSE LET pn == ParseNum(s, 1, j) IN
            IF ~pn[2] \/ pn[3] # j THEN <<0, j + 1, FALSE>>
            ELSE <<pn[1] - 1, j + 1, TRUE>>

\* argNumber: returns the state with argNum, i, afterIndex (= found) updated
ArgNumber(st, f, numArgs) ==
  IF Len(f) <= st.i \/ f[st.i + 1] # LBr THEN [st EXCEPT !.afterIndex = FALSE]
  ELSE LET pa == ParseArgNumber(f, st.i)
           index == pa[1]  wid == pa[2]  ok == pa[3] IN
       IF ok /\ 0 <= index /\ index < numArgs
       THEN [st EXCEPT !.reordered = TRUE, !.argNum = index, !.i = @ + wid, !.afterIndex = TRUE]
       ELSE [st EXCEPT !.reordered = TRUE, !.goodArgNum = FALSE, !.i = @ + wid, !.afterIndex = ok]

\* intFromArg -> <<num, isInt, newArgNum>>
IntFromArg(args, argNum) ==
  IF argNum < Len(args)
  THEN LET a == args[argNum + 1] IN
       IF a.isInt /\ ~TooLarge(a.num) THEN <<a.num, TRUE, argNum + 1>> ELSE <<0, FALSE, argNum + 1>>
  ELSE <<0, FALSE, argNum>>

Push(st, it) == [st EXCEPT !.items = Append(@, it)]

\* the 'v' verb moves sharp/plus to sharpV/plusV
VFlags(fl, verb) == IF verb = VerbV
                    THEN [fl EXCEPT !.sharpV = fl.sharp, !.sharp = FALSE, !.plusV = fl.plus, !.plus = FALSE]
                    ELSE fl

\* decode the verb at f[i:]: <<rune, size>> ; invalid UTF-8 is RuneError, size 1
RuneAt(f, i) ==
  LET c == f[i + 1] IN
  IF c < 128 THEN <<c, 1>>
  ELSE LET d == DecodeFirst(From(f, i)) IN
       IF ~d[1] THEN <<65533, 1>>
       ELSE LET p == From(f, i) IN
            <<(CASE d[2] = 2 -> (p[1] - 192) * 64 + (p[2] - 128)
                 [] d[2] = 3 -> (p[1] - 224) * 4096 + (p[2] - 128) * 64 + (p[3] - 128)
                 [] d[2] = 4 -> (p[1] - 240) * 262144 + (p[2] - 128) * 4096 + (p[3] - 128) * 64 + (p[4] - 128)),
              d[2]>>

\* the simpleFormat loop: returns <<state, "fast" | "slow">>
RECURSIVE FlagLoop(_, _, _)
FlagLoop(st, f, nargs) ==
  IF st.i >= Len(f) THEN <<st, "slow">>
  ELSE LET c == f[st.i + 1]  adv(fl) == [st EXCEPT !.fl = fl, !.i = @ + 1] IN
    CASE c = Sharp -> FlagLoop(adv([st.fl EXCEPT !.sharp = TRUE]), f, nargs)
      [] c = Zero  -> FlagLoop(adv([st.fl EXCEPT !.zero = ~st.fl.minus]), f, nargs)
      [] c = Plus  -> FlagLoop(adv([st.fl EXCEPT !.plus = TRUE]), f, nargs)
      [] c = Minus -> FlagLoop(adv([st.fl EXCEPT !.minus = TRUE, !.zero = FALSE]), f, nargs)
      [] c = SP    -> FlagLoop(adv([st.fl EXCEPT !.space = TRUE]), f, nargs)
      [] OTHER     ->
           IF 97 <= c /\ c <= 122 /\ st.argNum < nargs
           THEN LET fl2 == VFlags(st.fl, c) IN
                <<[st EXCEPT !.fl = fl2, !.items = Append(@, ArgItem(st.argNum, c, fl2)),
                             !.argNum = @ + 1, !.i = @ + 1], "fast">>
           ELSE <<st, "slow">>

\* everything after the flags of one directive; returns <<state, done>> (done: NOVERB ended the format)
Directive(st0, f, args) ==
  LET nargs == Len(args)
      end   == Len(f)
      s1 == ArgNumber(st0, f, nargs)
      \* width
      s2 == IF s1.i < end /\ f[s1.i + 1] = Star
            THEN LET ia == IntFromArg(args, s1.argNum)
                     a  == [s1 EXCEPT !.i = @ + 1, !.argNum = ia[3],
                                      !.fl = [@ EXCEPT !.wid = ia[1], !.widPresent = ia[2]]]
                     b  == IF ~ia[2] THEN Push(a, BadWidth) ELSE a
                     c  == IF b.fl.wid < 0
                           THEN [b EXCEPT !.fl = [@ EXCEPT !.wid = 0 - b.fl.wid, !.minus = TRUE, !.zero = FALSE]]
                           ELSE b
                 IN [c EXCEPT !.afterIndex = FALSE]
            ELSE LET pn == ParseNum(f, s1.i, end)
                     a  == [s1 EXCEPT !.fl = [@ EXCEPT !.wid = pn[1], !.widPresent = pn[2]], !.i = pn[3]]
                 IN IF a.afterIndex /\ a.fl.widPresent THEN [a EXCEPT !.goodArgNum = FALSE] ELSE a
      \* precision
      s3 == IF s2.i + 1 < end /\ f[s2.i + 1] = Dot
            THEN LET a0 == [s2 EXCEPT !.i = @ + 1]
                     a1 == IF a0.afterIndex THEN [a0 EXCEPT !.goodArgNum = FALSE] ELSE a0
                     a2 == ArgNumber(a1, f, nargs)
                 IN IF a2.i < end /\ f[a2.i + 1] = Star
                    THEN LET ia == IntFromArg(args, a2.argNum)
                             neg == ia[1] < 0
                             b == [a2 EXCEPT !.i = @ + 1, !.argNum = ia[3],
                                             !.fl = [@ EXCEPT !.prec = IF neg THEN 0 ELSE ia[1],
                                                              !.precPresent = IF neg THEN FALSE ELSE ia[2]]]
                             c == IF ~b.fl.precPresent THEN Push(b, BadPrec) ELSE b
                         IN [c EXCEPT !.afterIndex = FALSE]
                    ELSE LET pn == ParseNum(f, a2.i, end) IN
                         [a2 EXCEPT !.fl = [@ EXCEPT !.prec = IF pn[2] THEN pn[1] ELSE 0, !.precPresent = TRUE],
                                    !.i = pn[3]]
            ELSE s2
      s4 == IF ~s3.afterIndex THEN ArgNumber(s3, f, nargs) ELSE s3
  IN IF s4.i >= end THEN <<Push(s4, NoVerb), TRUE>>
     ELSE LET rv == RuneAt(f, s4.i)
              verb == rv[1]
              s5 == [s4 EXCEPT !.i = @ + rv[2]] IN
          <<(CASE verb = Pct -> Push(s5, PctItem)
               [] verb # Pct /\ ~s5.goodArgNum -> Push(s5, BadIdx(verb))
               [] verb # Pct /\ s5.goodArgNum /\ s5.argNum >= nargs -> Push(s5, Missing(verb))
               [] OTHER -> LET fl2 == VFlags(s5.fl, verb) IN
                           [s5 EXCEPT !.fl = fl2, !.items = Append(@, ArgItem(s5.argNum, verb, fl2)),
                                      !.argNum = @ + 1]),
            FALSE>>

RECURSIVE LitEnd(_, _)
LitEnd(f, i) == IF i < Len(f) /\ f[i + 1] # Pct THEN LitEnd(f, i + 1) ELSE i

RECURSIVE FormatLoop(_, _, _)
FormatLoop(st, f, args) ==
  IF st.i >= Len(f) THEN st
  ELSE LET a0 == [st EXCEPT !.goodArgNum = TRUE]
           j  == LitEnd(f, a0.i)
           a1 == IF j > a0.i THEN [Push(a0, Lit(Sub(f, a0.i, j))) EXCEPT !.i = j] ELSE a0
       IN IF a1.i >= Len(f) THEN a1
          ELSE LET a2 == [a1 EXCEPT !.i = @ + 1, !.fl = ClearFlags(@)]
                   fr == FlagLoop(a2, f, Len(args)) IN
               IF fr[2] = "fast" THEN FormatLoop(fr[1], f, args)
               ELSE LET dr == Directive(fr[1], f, args) IN
                    IF dr[2] THEN dr[1] ELSE FormatLoop(dr[1], f, args)

ParseInit == [i |-> 0, argNum |-> 0, afterIndex |-> FALSE, reordered |-> FALSE, goodArgNum |-> TRUE,
              fl |-> NoFlags, items |-> <<>>]

\* doPrintf: the item sequence for format f and operands args
ParseFormat(f, args) ==
  LET st == FormatLoop(ParseInit, f, args) IN
  IF ~st.reordered /\ st.argNum < Len(args) THEN Append(st.items, Extra(st.argNum)) ELSE st.items

\* the final parser state (for structural invariants)
ParseState(f, args) == FormatLoop(ParseInit, f, args)
=============================================================================
