------------------------------- MODULE Printer -------------------------------
(***************************************************************************)
(* The printer of internal/rfmt: print.go, helpers.go, printer_adapter.go. *)
(* One operator per Go function, same names.  A printer state `ps` is the  *)
(* record                                                                  *)
(*   [bs, ov, erroring, panicking, wrapErrs, wrappedErr, fl, cur, exc,     *)
(*    rt, calls]                                                           *)
(* bs   the output buffer (Buffer!state: buf, valid, mode, open)           *)
(* ov   pp.override  ("none" | "safe" | "unsafe")                          *)
(* fl   pp.fmt flags (Format!flag record, incl. plusV/sharpV/wid/prec)     *)
(* cur  what pp.arg / pp.value hold: [a, v], each <<>> or <<term>>         *)
(* exc  a Go panic in flight: <<>> or <<payload term>>                     *)
(* rt   ghost: table of the leaf renderings requested so far (see Rend)    *)
(* calls ghost: user methods invoked, in order ([m, id, v])                *)
(*                                                                         *)
(* VALUES are abstract terms (see T below).  What the model cannot know -- *)
(* the characters strconv/fmt produce for a leaf under a directive, type   *)
(* names, pointer values -- is written to the buffer as an opaque TOKEN    *)
(* (an integer >= RTok) that indexes `rt`; the conformance harness         *)
(* substitutes the text the standard fmt package gives for the recorded    *)
(* (leaf, verb, flags).  Everything else -- which mode each byte is        *)
(* written in, the order of method dispatch, overrides and their           *)
(* restoration, panics, diagnostics, punctuation -- is modelled exactly.   *)
(***************************************************************************)
EXTENDS Buffer, Format, Lits

CONSTANTS HookKind,         \* "none" | "plain" | "print" | "panic": what RegisterRedactErrorFn installed
          NestedOverride,   \* "inherited" (the code) | "dropped" (before the repair of F3: kept so that
                            \* TLC can exhibit the defect as a counterexample of the C06 invariant)
          SMOverride        \* "strverbs" (the code) | "always" (before the repair of F8: a SafeMessager under a verb
                            \* that is not valid for strings showed its underlying value in the clear)

RTok == 1000000             \* rendering tokens  RTok + index into rt
PTok == 2000000             \* payload tokens    PTok + payload id (opaque non-empty plain text)

VV == 118  VS == 115  VD == 100  VT == 84  VP == 112  VW == 119  VQ == 113  VX == 120  VXX == 88
Vt == 116  Vb == 98   Vo == 111  VO == 79  Vc == 99   VU == 85
Ve == 101  VE == 69   Vf == 102  VF == 70  Vg == 103  VG == 71

(***************************************************************************)
(* Terms.  Uniform record shape:                                           *)
(*  k    kind: "nil" "bool" "int" "uint" "float" "string" "bytes"          *)
(*             "rstring" "rbytes" "safe" "unsafe" "obj"                    *)
(*             "slice" "map" "struct" "ptrto" "nilptr" "rvalue" "invalidrv" *)
(*             "tslice" "tmap" "sstr" "complex"                            *)
(*  id   unique within a case; names the concrete Go value in the harness  *)
(*  n    integer value (int/uint leaves: also what '*' reads)              *)
(*  b    bytes (string/rstring content; may hold payload tokens)           *)
(*  xs   children (wrapper: <<inner>>; slice: elements; map: k1,v1,k2,..;  *)
(*       struct: fields; ptrto: <<pointee>>)                               *)
(*  ro   struct: per field TRUE = unexported                               *)
(*  caps obj: subset of Caps                                               *)
(*  scr  obj: script of SafeFormat; fscr: script of Format                 *)
(*  ret  obj: what String/Error/GoString/SafeMessage return: bytes, or     *)
(*       pan = <<payload>> if the method panics instead                    *)
(***************************************************************************)
Caps == {"SF", "SM", "SV", "ER", "FM", "GS", "ST", "REG", "NILP", "U8"}     \* U8: the named type is uint8-kinded

T0 == [k |-> "nil", id |-> 0, n |-> 0, b |-> <<>>, xs |-> <<>>, ro |-> <<>>, caps |-> {},
       scr |-> <<>>, fscr |-> <<>>, pan |-> <<>>]
TNil(id)        == [T0 EXCEPT !.id = id]
TInt(id, n)     == [T0 EXCEPT !.k = "int", !.id = id, !.n = n]
TUint(id, n)    == [T0 EXCEPT !.k = "uint", !.id = id, !.n = n]
TBool(id)       == [T0 EXCEPT !.k = "bool", !.id = id]
TFloat(id)      == [T0 EXCEPT !.k = "float", !.id = id]
TStr(id, b)     == [T0 EXCEPT !.k = "string", !.id = id, !.b = b]
TRStr(id, b)    == [T0 EXCEPT !.k = "rstring", !.id = id, !.b = b]
TRBytes(id, b)  == [T0 EXCEPT !.k = "rbytes", !.id = id, !.b = b]
TSafe(id, x)    == [T0 EXCEPT !.k = "safe", !.id = id, !.xs = <<x>>]
TUnsafe(id, x)  == [T0 EXCEPT !.k = "unsafe", !.id = id, !.xs = <<x>>]
TSlice(id, xs)  == [T0 EXCEPT !.k = "slice", !.id = id, !.xs = xs]
TMap(id, kvs)   == [T0 EXCEPT !.k = "map", !.id = id, !.xs = kvs]
TStruct(id, xs, ro) == [T0 EXCEPT !.k = "struct", !.id = id, !.xs = xs, !.ro = ro]
TRegStruct(id, xs) == [T0 EXCEPT !.k = "struct", !.id = id, !.xs = xs, !.ro = [i \in 1..Len(xs) |-> FALSE], !.caps = {"REG"}]   \* a struct type registered as safe
TPtrTo(id, x)   == [T0 EXCEPT !.k = "ptrto", !.id = id, !.xs = <<x>>]
TNilPtr(id)     == [T0 EXCEPT !.k = "nilptr", !.id = id]
TRValue(id, x)  == [T0 EXCEPT !.k = "rvalue", !.id = id, !.xs = <<x>>]       \* reflect.ValueOf(x) passed as an operand
\* reflect.ValueOf(struct{ f T }{x}).Field(0): a reflect.Value obtained through an unexported field (CanInterface false)
TRValueRO(id, x) == [T0 EXCEPT !.k = "rvaluero", !.id = id, !.xs = <<x>>]
TInvalidRV(id)  == [T0 EXCEPT !.k = "invalidrv", !.id = id]                  \* reflect.Value{}
\* statically typed containers ([]T, map[K]V with concrete T, K, V): elements are not interface-kind values
TSStr(id, b)    == [T0 EXCEPT !.k = "sstr", !.id = id, !.b = b]              \* interfaces.SafeString: string kind + SafeValue
TComplex(id)    == [T0 EXCEPT !.k = "complex", !.id = id]
TTSlice(id, xs) == [T0 EXCEPT !.k = "tslice", !.id = id, !.xs = xs]
TChan(id)       == [T0 EXCEPT !.k = "chan", !.id = id]       \* make(chan int): printed as a pointer
TFunc(id)       == [T0 EXCEPT !.k = "func", !.id = id]       \* func() {}: printed as a pointer
TTArray(id, xs) == [T0 EXCEPT !.k = "tarray", !.id = id, !.xs = xs]           \* [N]T: printed like []T (never nil; no %p)
TTMap(id, kvs)  == [T0 EXCEPT !.k = "tmap", !.id = id, !.xs = kvs]
\* an object: named int type (value n) with the methods in caps
TObj(id, caps, scr, fscr, ret, pan) ==
  [T0 EXCEPT !.k = "obj", !.id = id, !.n = id, !.caps = caps, !.scr = scr, !.fscr = fscr, !.b = ret, !.pan = pan]

\* script operations (SafeFormat / Format / hook bodies): [o, b, n, f, ts]
SOp(o, b, n, f, ts) == [o |-> o, b |-> b, n |-> n, f |-> f, ts |-> ts]
SSafeString(b)   == SOp("SafeString", b, 0, <<>>, <<>>)
SUnsafeString(b) == SOp("UnsafeString", b, 0, <<>>, <<>>)
SSafeInt(id, n)  == SOp("SafeInt", <<>>, n, <<>>, <<TInt(id, n)>>)
SSafeUint(id, n) == SOp("SafeUint", <<>>, n, <<>>, <<TUint(id, n)>>)       \* n < 0 stands for 2^64 + n (TLC integers are 32 bit)
SSafeFloat(id)   == SOp("SafeFloat", <<>>, 0, <<>>, <<TFloat(id)>>)
SSafeRune(n)     == SOp("SafeRune", <<>>, n, <<>>, <<>>)
SUnsafeRune(n)   == SOp("UnsafeRune", <<>>, n, <<>>, <<>>)
SSafeByte(n)     == SOp("SafeByte", <<>>, n, <<>>, <<>>)
SUnsafeByte(n)   == SOp("UnsafeByte", <<>>, n, <<>>, <<>>)
SSafeBytes(b)    == SOp("SafeBytes", b, 0, <<>>, <<>>)
SUnsafeBytes(b)  == SOp("UnsafeBytes", b, 0, <<>>, <<>>)
SWrite(b)        == SOp("Write", b, 0, <<>>, <<>>)
SWriteStr(b)     == SOp("WriteString", b, 0, <<>>, <<>>)      \* io.WriteString(state, s) -> pp.WriteString
\* single bytes / runes through the plain io.Writer side: the builder has WriteByte / WriteRune of its own (the
\* buffer's: a byte >= 0x80 becomes '?', an invalid rune U+FFFD); a fmt.State only has Write, so on a printer
\* they stand for Write of that byte / of the rune's encoding
SWriteByte(c)    == SOp("WriteByte", <<>>, c, <<>>, <<>>)
SWriteVerb       == SOp("WriteVerb", <<>>, 0, <<>>, <<>>)       \* writes the verb the method was called with
SWriteFlags      == SOp("WriteFlags", <<>>, 0, <<>>, <<>>)      \* writes the flags the method observes, in the order + - # space 0
SWriteRune(r)    == SOp("WriteRune", <<>>, r, <<>>, <<>>)
SPrint(ts)       == SOp("Print", <<>>, 0, <<>>, ts)
SPrintf(f, ts)   == SOp("Printf", <<>>, 0, f, ts)
SPanic(t)        == SOp("Panic", <<>>, 0, <<>>, <<t>>)
SDiscover        == SOp("Discover", <<>>, 0, <<>>, <<>>)
\* util.go JoinTo(w, delim, values) on a SafeWriter: n is the term id given to the delimiter (a RedactableString)
SJoinTo(d, n, t) == SOp("JoinTo", d, n, <<>>, <<t>>)
\* ... is these calls of w: a slice is printed element by element with the delimiter printed in between;
\* any other operand, a nil one included, is printed as it is
JoinOps(op) ==
  LET t == op.ts[1]  dl == TRStr(op.n, op.b) IN
  IF t.k \in {"slice", "tslice"}
  THEN [i \in 1..(IF Len(t.xs) = 0 THEN 0 ELSE 2 * Len(t.xs) - 1) |->
           IF i % 2 = 1 THEN SPrint(<<t.xs[(i + 1) \div 2]>>) ELSE SPrint(<<dl>>)]
  ELSE <<SPrint(<<t>>)>>

---------------------------------------------------------------------------
\* printer state

NoCur == [a |-> <<>>, v |-> <<>>, ro |-> FALSE]       \* pp.arg (non-nil) and pp.value (valid), each <<>> or <<term>>
CurArg(ps, t) == [ps EXCEPT !.cur = [a |-> IF t.k = "nil" THEN <<>> ELSE <<t>>, v |-> <<>>, ro |-> FALSE]]          \* printArg: p.arg = arg; p.value = {}
CurIface(ps, t) == [ps EXCEPT !.cur = [@ EXCEPT !.a = IF t.k = "nil" THEN <<>> ELSE <<t>>]]           \* printValue: p.arg = value.Interface()
CurValue(ps, t) == [ps EXCEPT !.cur = [a |-> <<>>, v |-> <<t>>, ro |-> FALSE]]                                       \* printValue: p.arg = nil; p.value = value
NewPS == [bs |-> BInit, ov |-> "none", erroring |-> FALSE, panicking |-> FALSE, wrapErrs |-> FALSE,
          wrappedErr |-> 0, fl |-> NoFlags, cur |-> NoCur, exc |-> <<>>, rt |-> <<>>, calls |-> <<>>]

Exc(ps) == ps.exc # <<>>

SetMode(ps, m) == [ps EXCEPT !.bs = BSetMode(@, m)]
W(ps, b)       == IF Exc(ps) THEN ps ELSE [ps EXCEPT !.bs = BWrite(@, b)]        \* buf.writeString / write
WByte(ps, c)   == IF Exc(ps) THEN ps ELSE [ps EXCEPT !.bs = BWriteByte(@, c)]
WRune(ps, r)   == IF Exc(ps) THEN ps ELSE [ps EXCEPT !.bs = BWriteRune(@, r)]

\* helpers.go: the four mode/override switches and their restorer
StartUnsafe(ps)        == IF ps.ov # "safe" THEN SetMode(ps, MU) ELSE ps
StartPreRedactable(ps) == IF ps.ov # "unsafe" THEN SetMode(ps, MR) ELSE ps
StartSafeOverride(ps)   == IF ps.ov = "none" THEN [SetMode(ps, MS) EXCEPT !.ov = "safe"] ELSE ps
StartUnsafeOverride(ps) == IF ps.ov = "none" THEN [SetMode(ps, MU) EXCEPT !.ov = "unsafe"] ELSE ps
\* restorer.restore(): deferred, so it also runs while a panic unwinds
Restore(ps, m, o) == [SetMode(ps, m) EXCEPT !.ov = o]

\* ghost log of user methods entered (a method called on a nil receiver dies before it can be observed)
Call(ps, m, a, v) == IF a.k = "obj" /\ "NILP" \in a.caps THEN ps
                     ELSE [ps EXCEPT !.calls = Append(@, [m |-> m, id |-> a.id, v |-> v])]

(***************************************************************************)
(* Rend: the text fmt produces for leaf (kind rk, term id) under the       *)
(* current verb and flags, written in the CURRENT mode as one opaque       *)
(* token.  rk: "val" the term's own plain value; "ret" the string its      *)
(* String/Error/GoString/SafeMessage method returns; "type" its type name  *)
(* written raw ("typefmt": through fmtS, for %T); "std" the whole term as the standard fmt package *)
(* prints it; "ptr" its pointer value; "elem" byte number n of a []byte.   *)
(***************************************************************************)
FlagMask(fl) == (IF fl.sharp THEN 1 ELSE 0) + (IF fl.zero THEN 2 ELSE 0) + (IF fl.plus THEN 4 ELSE 0)
              + (IF fl.minus THEN 8 ELSE 0) + (IF fl.space THEN 16 ELSE 0) + (IF fl.plusV THEN 32 ELSE 0)
              + (IF fl.sharpV THEN 64 ELSE 0)
Rend(ps, rk, t, verb, n) ==
  IF Exc(ps) THEN ps
  ELSE LET e == [rk |-> rk, id |-> t.id, v |-> verb, m |-> FlagMask(ps.fl), n |-> n,
                 w |-> IF ps.fl.widPresent THEN ps.fl.wid ELSE -1,
                 p |-> IF ps.fl.precPresent THEN ps.fl.prec ELSE -1]
       IN [ps EXCEPT !.rt = Append(@, e), !.bs = BWrite(@, <<RTok + Len(ps.rt) + 1>>)]

PlainFl(fl)  == ~fl.widPresent /\ ~fl.precPresent      \* fmtS / padString write the text as it is
HasWid(fl)   == fl.widPresent

---------------------------------------------------------------------------
\* static facts about terms

IsNilIface(t)   == t.k = "nil"
HasCap(t, c)    == t.k = "obj" /\ c \in t.caps
\* the registry holds T (a nil *T is another type); structs can be registered too
IsRegistered(t) == "REG" \in t.caps /\ "NILP" \notin t.caps
\* implements SafeValue: marked objects and the Safe() wrapper struct itself
HasSafeValue(t) == HasCap(t, "SV") \/ t.k \in {"safe", "sstr"}
IsError(t)      == HasCap(t, "ER")
IsSafeFormatter(t) == HasCap(t, "SF") \/ t.k \in {"rstring", "rbytes", "builder"}
IsSafeMessager(t)  == HasCap(t, "SM") \/ t.k = "safe"
IsFormatter(t)     == HasCap(t, "FM") \/ t.k \in {"safe", "unsafe"}
IsGoStringer(t)    == HasCap(t, "GS")
IsStringer(t)      == HasCap(t, "ST") \/ t.k = "builder"
IsNilRecv(t)       == HasCap(t, "NILP")        \* a typed nil pointer whose methods dereference it
IsStringKind(t)    == t.k \in {"string", "rstring", "sstr"}
IsPtrKind(t)       == t.k \in {"ptrto", "nilptr", "map", "slice", "tslice", "tmap", "chan", "func", "rbytes", "bytes"} \/ IsNilRecv(t)

---------------------------------------------------------------------------
RECURSIVE PrintArg(_, _, _), PrintArg2(_, _, _), PrintValue(_, _, _, _, _), PrintElem(_, _, _, _, _), PrintChecked(_, _, _, _, _),
          PrintKind(_, _, _, _, _), HandleMethods(_, _, _), CatchPanic(_, _, _, _), BadVerb(_, _),
          RunScript(_, _, _, _), RunOp(_, _, _, _), PPPrint(_, _), PPPrintf(_, _, _),
          DoPrint(_, _), DoPrintArgs(_, _, _, _), DoPrintf(_, _, _), DoItems(_, _, _), DoExtra(_, _, _),
          FmtInteger(_, _, _, _), FmtString(_, _, _, _, _), PrintSeq(_, _, _, _, _, _, _),
          PrintTSeq(_, _, _, _, _, _, _), PrintTMap(_, _, _, _, _, _), FmtComplex(_, _, _),
          PrintMap(_, _, _, _, _, _), PrintFields(_, _, _, _, _, _), FmtPointer(_, _, _), FmtBytes(_, _, _)

\* ---- leaf formatters (print.go:359-570): valid verb -> one unsafe bracket, else badVerb
UnsafeRend(ps, rk, t, verb) ==
  LET m == ps.bs.mode  o == ps.ov IN Restore(Rend(StartUnsafe(ps), rk, t, verb, 0), m, o)

FmtBool(ps, t, verb) ==
  IF verb \in {Vt, VV} THEN UnsafeRend(ps, "val", t, verb) ELSE BadVerb(ps, verb)

FmtInteger(ps, t, signed, verb) ==
  IF verb \in {VV, VD, Vb, Vo, VO, VX, VXX, Vc, VQ, VU} THEN UnsafeRend(ps, "val", t, verb)
  ELSE BadVerb(ps, verb)

FmtFloat(ps, t, verb) ==
  IF verb \in {VV, Vb, Vg, VG, VX, VXX, Vf, Ve, VE, VF} THEN UnsafeRend(ps, "val", t, verb)
  ELSE BadVerb(ps, verb)

\* fmtComplex: "(" real imag "i)", the parts through fmtFloat (imaginary part with the plus flag forced)
FmtComplex(ps, t, verb) ==
  IF verb \in {VV, Vb, Vg, VG, VX, VXX, Vf, VF, Ve, VE}
  THEN LET a == WByte(ps, 40)
           m == a.bs.mode  o == a.ov
           re == Restore(Rend(StartUnsafe(a), "cre", t, verb, 0), m, o)
           pl == [re EXCEPT !.fl = [@ EXCEPT !.plus = TRUE]]
           im == Restore(Rend(StartUnsafe(pl), "cim", t, verb, 0), m, o)
       IN [W(im, IParen) EXCEPT !.fl = [@ EXCEPT !.plus = ps.fl.plus]]
  ELSE BadVerb(ps, verb)

\* fmtString: content b (bytes, maybe payload tokens); rk/t name the leaf for a rendering token
FmtString(ps, b, rk, t, verb) ==
  IF verb \in {VV, VS, VX, VXX, VQ}
  THEN LET m == ps.bs.mode  o == ps.ov  s == StartUnsafe(ps)
           exact == verb \in {VV, VS} /\ PlainFl(ps.fl) /\ ~(verb = VV /\ ps.fl.sharpV)
       IN Restore(IF exact THEN W(s, b) ELSE Rend(s, rk, t, verb, 0), m, o)
  ELSE BadVerb(ps, verb)

\* fmtBytes for a []byte operand at top level (v/d element-wise; s x X q whole; else printValue)
RECURSIVE ByteElems(_, _, _, _, _)
ByteElems(ps, t, verb, i, hex) ==
  IF i > Len(t.b) THEN ps
  ELSE LET sep == IF i > 1 THEN W(ps, IF hex THEN CommaSpace ELSE <<SP>>) ELSE ps
           m == sep.bs.mode  o == sep.ov
           one == Restore(Rend(StartUnsafe(sep), IF hex THEN "elem0x" ELSE "elem", t, verb, i), m, o)
       IN ByteElems(one, t, verb, i + 1, hex)
\* ([]byte operands: only the verbs v d s q x X are modelled; enumerations keep to them)
FmtBytes(ps, t, verb) ==
  IF verb \in {VV, VD}
  THEN IF ps.fl.sharpV
       THEN W(ByteElems(W(Rend(ps, "typename", t, VS, 0), <<123>>), t, verb, 1, TRUE), <<125>>)
       ELSE W(ByteElems(W(ps, <<91>>), t, verb, 1, FALSE), <<93>>)
  ELSE IF verb \in {VS, VX, VXX, VQ} THEN UnsafeRend(ps, "val", t, verb)
  ELSE BadVerb(CurValue(ps, t), verb)   \* via printValue(reflect.ValueOf(v)); enumerations avoid it

\* fmtPointer (print.go:533)
FmtPointer(ps, t, verb) ==
  IF ~IsPtrKind(t) THEN BadVerb(ps, verb)
  ELSE IF verb = VV THEN
         IF ps.fl.sharpV
         THEN LET a == W(W(Rend(W(ps, <<40>>), "typename", t, VS, 0), <<41, 40>>), <<>>)
                  b == IF t.k = "nilptr" \/ IsNilRecv(t) THEN W(a, NilWord) ELSE UnsafeRend(a, "ptr", t, verb)
              IN W(b, <<41>>)
         ELSE UnsafeRend(ps, "ptr", t, verb)            \* "<nil>" or 0x.. , both inside an unsafe bracket
  ELSE IF verb = VP THEN UnsafeRend(ps, "ptr", t, verb)
  ELSE IF verb \in {Vb, Vo, VD, VX, VXX} THEN UnsafeRend(ps, "ptr", t, verb)
  ELSE BadVerb(ps, verb)

\* ---- badVerb (print.go:338)
BadVerb(ps, verb) ==
  IF Exc(ps) THEN ps
  ELSE LET a == W(W(W([ps EXCEPT !.erroring = TRUE], PercentBang), EncodeRune(verb)), <<40>>)
           b == IF ps.cur.a # <<>>
                THEN PrintArg(W(Rend(a, "typename", ps.cur.a[1], VS, 0), <<61>>), ps.cur.a[1], VV)
                ELSE IF ps.cur.v # <<>>
                THEN PrintValue(W(Rend(a, "typename", ps.cur.v[1], VS, 0), <<61>>), ps.cur.v[1], VV, 0, ps.cur.ro)
                ELSE W(a, NilAngle)
       IN IF Exc(b) THEN b ELSE [W(b, <<41>>) EXCEPT !.erroring = FALSE]

\* ---- catchPanic (print.go:572): r is the state when the deferred handler runs
CatchPanic(r, a, verb, method) ==
  IF ~Exc(r) THEN r
  ELSE IF a.k = "nilptr" \/ IsNilRecv(a) THEN W([r EXCEPT !.exc = <<>>], NilAngle)
  ELSE IF r.panicking THEN r                                  \* nested panic: re-panic
  ELSE LET payload == r.exc[1]
           old == r.fl
           r1 == [r EXCEPT !.exc = <<>>, !.fl = ClearFlags(@)]
           r2 == W(W(W(W(W(r1, PercentBang), EncodeRune(verb)), PanicS), method), MethodSep)
           r3 == PrintArg([r2 EXCEPT !.panicking = TRUE], payload, VV)
       IN IF Exc(r3) THEN r3
          ELSE [W([r3 EXCEPT !.panicking = FALSE], <<41>>) EXCEPT !.fl = old]

\* ---- the registered error hook (helpers: RegisterRedactErrorFn), one fixed function per HookKind
HookScript(a, verb) ==
  CASE HookKind = "plain" -> <<SSafeString(HookOpen), SSafeRune(verb), SSafeString(HookSep),
                               SOp("UnsafeErrText", <<>>, 0, <<>>, <<a>>), SSafeString(HookClose)>>
    [] HookKind = "print" -> <<SSafeString(HookOpen), SPrint(<<TStr(900, <<PTok + 900>>), TSafe(901, TInt(902, 7))>>),
                               SSafeString(HookClose)>>
    [] HookKind = "panic" -> <<SSafeString(HookOpen), SPanic(TStr(903, <<PTok + 903>>))>>
    [] OTHER -> <<>>

\* ---- handleMethods (print.go:606): <<handled, ps>>; a is what pp.arg holds
HandleMethods(ps0, a, verb0) ==
  IF ps0.erroring THEN <<FALSE, ps0>>
  ELSE IF verb0 = VW /\ (~IsError(a) \/ ~ps0.wrapErrs \/ ps0.wrappedErr # 0)
       THEN <<TRUE, BadVerb([ps0 EXCEPT !.wrappedErr = 0, !.wrapErrs = FALSE], verb0)>>
  ELSE LET ps   == IF verb0 = VW THEN [ps0 EXCEPT !.wrappedErr = a.id] ELSE ps0
           verb == IF verb0 = VW THEN VV ELSE verb0
           m == ps.bs.mode  o == ps.ov
       IN
       IF ps.ov # "unsafe" /\ IsSafeFormatter(a) THEN
            <<TRUE, CatchPanic(IF a.k \in {"rstring", "rbytes"} THEN PPPrint(ps, <<a>>)
                               \* builder.StringBuilder.SafeFormat: p.Print(b.RedactableString()), the verb is ignored
                               ELSE IF a.k = "builder" THEN PPPrint(ps, <<TRStr(a.id, a.b)>>)
                               ELSE IF IsNilRecv(a) THEN [Call(ps, "SafeFormat", a, verb) EXCEPT !.exc = <<TStr(0, <<>>)>>]
                               ELSE RunScript(Call(ps, "SafeFormat", a, verb), a.scr, verb, a),
                               a, verb, MSafeFormat)>>
       ELSE IF ps.ov # "unsafe" /\ IsSafeMessager(a) THEN
            \* defer catchPanic; for the verbs fmtString accepts: defer startSafeOverride().restore(); then
            \* fmtString(v.SafeMessage(), verb).  (Before the repair of F8 the override was taken for every verb, so the
            \* bad-verb report %!d(T=<underlying value>) showed the value in the clear.)
            LET s1 == IF verb \in {VV, VS, VX, VXX, VQ} \/ SMOverride = "always" THEN StartSafeOverride(ps) ELSE ps
                s2 == IF a.k = "obj" /\ (a.pan # <<>> \/ IsNilRecv(a))
                      THEN [Call(s1, "SafeMessage", a, verb) EXCEPT !.exc = IF a.pan # <<>> THEN a.pan ELSE <<TStr(0, <<>>)>>]
                      ELSE IF a.k = "safe"
                           \* safeWrapper.SafeMessage() = fmt.Sprintf("%v", inner): a text only the harness knows
                           THEN FmtString(s1, <<PTok + a.id>>, "ret", a, verb)
                           ELSE FmtString(Call(s1, "SafeMessage", a, verb), a.b, "ret", a, verb)
            IN <<TRUE, CatchPanic(Restore(s2, m, o), a, verb, MSafeMessager)>>
       ELSE IF ps.ov # "unsafe" /\ IsError(a) /\ HookKind # "none" THEN
            <<TRUE, CatchPanic(RunScript(Call(ps, "Hook", a, verb), HookScript(a, verb), verb, a), a, verb, MSafeFormatter)>>
       ELSE IF IsFormatter(a) THEN
            <<TRUE, CatchPanic(
               IF a.k \in {"safe", "unsafe"}
               \* wrapper.Format: fmtforward.ReproducePrintf -> the STANDARD fmt prints the inner value into pp.Write
               THEN Restore(Rend(StartUnsafe(ps), "std", a.xs[1], verb, 0), m, o)
               ELSE IF IsNilRecv(a) THEN [Call(ps, "Format", a, verb) EXCEPT !.exc = <<TStr(0, <<>>)>>]
               ELSE RunScript(Call(ps, "Format", a, verb), a.fscr, verb, a),
               a, verb, MFormat)>>
       ELSE IF ps.fl.sharpV THEN
            IF IsGoStringer(a) THEN
              LET s1 == StartUnsafe(ps)
                  s2 == IF a.pan # <<>> \/ IsNilRecv(a)
                        THEN [Call(s1, "GoString", a, verb) EXCEPT !.exc = IF a.pan # <<>> THEN a.pan ELSE <<TStr(0, <<>>)>>]
                        ELSE IF PlainFl(ps.fl) THEN W(Call(s1, "GoString", a, verb), a.b)
                             ELSE Rend(Call(s1, "GoString", a, verb), "ret", a, VS, 0)
              IN <<TRUE, CatchPanic(Restore(s2, m, o), a, verb, MGoString)>>
            ELSE <<FALSE, ps>>
       ELSE IF verb \in {VV, VS, VX, VXX, VQ} /\ (IsError(a) \/ IsStringer(a)) THEN
            LET meth == IF IsError(a) THEN "Error" ELSE "String"
                s1 == IF a.k = "builder" THEN ps ELSE Call(ps, meth, a, verb)        \* (the library's own type: not logged)
                s2 == IF a.pan # <<>> \/ IsNilRecv(a)
                      THEN [s1 EXCEPT !.exc = IF a.pan # <<>> THEN a.pan ELSE <<TStr(0, <<>>)>>]
                      \* Buffer.String(): the content with the markers stripped
                      ELSE FmtString(s1, IF a.k = "builder" THEN Strip(a.b) ELSE a.b, "ret", a, verb)
            IN <<TRUE, CatchPanic(s2, a, verb, IF IsError(a) THEN MError ELSE MString)>>
       ELSE <<FALSE, ps>>

\* ---- user programs: the body of a SafeFormat / Format method or of the error hook
RunOp(ps, op, verb, a) ==
  LET m == ps.bs.mode  o == ps.ov
      safely(Body(_))   == Restore(Body(StartSafeOverride(ps)), m, o)
      unsafely(Body(_)) == Restore(Body(StartUnsafe(ps)), m, o)
  IN CASE op.o = "SafeString"   -> safely(LAMBDA s : W(s, op.b))
       [] op.o = "SafeBytes"    -> safely(LAMBDA s : W(s, op.b))
       [] op.o = "SafeRune"     -> safely(LAMBDA s : WRune(s, op.n))
       [] op.o = "SafeByte"     -> safely(LAMBDA s : WByte(s, op.n))
       \* SafeInt/SafeUint/SafeFloat go through fmtInteger/fmtFloat: flags of the enclosing directive apply
       [] op.o = "SafeInt"      -> safely(LAMBDA s : LET mm == s.bs.mode oo == s.ov IN
                                             Restore(Rend(StartUnsafe(s), "val", op.ts[1], VD, 0), mm, oo))
       [] op.o = "SafeUint"     -> safely(LAMBDA s : LET mm == s.bs.mode oo == s.ov IN
                                             Restore(Rend(StartUnsafe(s), "val", op.ts[1], VD, 0), mm, oo))
       [] op.o = "SafeFloat"    -> safely(LAMBDA s : LET mm == s.bs.mode oo == s.ov IN
                                             Restore(Rend(StartUnsafe(s), "val", op.ts[1], VV, 0), mm, oo))
       [] op.o = "UnsafeString" -> unsafely(LAMBDA s : W(s, op.b))
       [] op.o = "UnsafeBytes"  -> unsafely(LAMBDA s : W(s, op.b))
       [] op.o = "UnsafeRune"   -> unsafely(LAMBDA s : WRune(s, op.n))
       [] op.o = "UnsafeByte"   -> unsafely(LAMBDA s : WByte(s, op.n))
       [] op.o \in {"Write", "WriteString"} -> unsafely(LAMBDA s : W(s, op.b))     \* pp.Write / pp.WriteString
       [] op.o = "WriteByte"    -> unsafely(LAMBDA s : W(s, <<op.n>>))
       [] op.o = "WriteVerb"    -> unsafely(LAMBDA s : W(s, EncodeRune(verb)))        \* a method that looks at the verb it is given
       \* ... and at the flags (pp.Flag: '+' and '#' also report the plusV / sharpV they were turned into for %v)
       [] op.o = "WriteFlags"   -> unsafely(LAMBDA s : W(s, (IF ps.fl.plus \/ ps.fl.plusV THEN <<43>> ELSE <<>>) \o (IF ps.fl.minus THEN <<45>> ELSE <<>>)
                                                           \o (IF ps.fl.sharp \/ ps.fl.sharpV THEN <<35>> ELSE <<>>) \o (IF ps.fl.space THEN <<32>> ELSE <<>>)
                                                           \o (IF ps.fl.zero THEN <<48>> ELSE <<>>)))
       [] op.o = "WriteRune"    -> unsafely(LAMBDA s : W(s, EncodeRune(op.n)))
       \* the hook's p.UnsafeString(err.Error()): Error() may panic
       [] op.o = "UnsafeErrText" -> LET e == op.ts[1] IN
                                    IF e.pan # <<>> THEN [Call(ps, "Error", e, verb) EXCEPT !.exc = e.pan]
                                    ELSE IF IsNilRecv(e) THEN [Call(ps, "Error", e, verb) EXCEPT !.exc = <<TStr(0, <<>>)>>]
                                    ELSE unsafely(LAMBDA s : W(Call(s, "Error", e, verb), e.b))
       [] op.o = "Print"        -> PPPrint(ps, op.ts)
       [] op.o = "Printf"       -> PPPrintf(ps, op.f, op.ts)
       [] op.o = "Panic"        -> [ps EXCEPT !.exc = op.ts]
       [] op.o = "Discover"     -> ps
       [] op.o = "JoinTo"       -> RunScript(ps, JoinOps(op), verb, a)

RunScript(ps, ops, verb, a) ==
  IF Exc(ps) \/ ops = <<>> THEN ps
  ELSE RunScript(RunOp(ps, Head(ops), verb, a), Tail(ops), verb, a)

\* ---- printer_adapter.go: Print / Printf of the SafePrinter (a nested printer borrowing the buffer)
Nested(ps) == [NewPS EXCEPT !.bs = ps.bs, !.rt = ps.rt, !.calls = ps.calls,
                            !.ov = IF NestedOverride = "inherited" THEN ps.ov ELSE "none"]
Return(ps, r) ==
  LET m == ps.bs.mode IN
  \* (the buffer is handed back also when a panic crosses the nested printer -- F10: before the repair it was not, and
  \*  the outer printer was left with a stale view of bytes the nested one had rewritten)
  IF Exc(r) THEN SetMode([ps EXCEPT !.bs = r.bs, !.exc = r.exc, !.rt = r.rt, !.calls = r.calls], m)
  ELSE SetMode([ps EXCEPT !.bs = r.bs, !.rt = r.rt, !.calls = r.calls], m)
PPPrint(ps, ts)     == IF Exc(ps) THEN ps ELSE Return(ps, DoPrint(Nested(ps), ts))
PPPrintf(ps, f, ts) == IF Exc(ps) THEN ps ELSE Return(ps, DoPrintf(Nested(ps), f, ts))

\* ---- printArg (print.go:698)
PrintArg(ps, a0, verb) ==
  IF Exc(ps) THEN ps
  ELSE LET m0 == ps.bs.mode  o0 == ps.ov
           s1 == IF IsRegistered(a0) \/ a0.k = "safe" THEN StartSafeOverride(ps)
                 ELSE IF a0.k = "unsafe" THEN StartUnsafeOverride(ps) ELSE ps
           wrapped == IsRegistered(a0) \/ a0.k \in {"safe", "unsafe"}
           a  == IF a0.k \in {"safe", "unsafe"} THEN a0.xs[1] ELSE a0
           m1 == s1.bs.mode  o1 == s1.ov
           sv == HasSafeValue(a)
           s2 == IF sv THEN StartSafeOverride(s1) ELSE s1
           r  == PrintArg2(CurArg(s2, a), a, verb)
           r1 == IF sv THEN Restore(r, m1, o1) ELSE r
       IN IF wrapped THEN Restore(r1, m0, o0) ELSE r1

PrintArg2(ps, a, verb) ==
  IF IsNilIface(a) THEN
       IF verb \in {VT, VV} THEN (IF HasWid(ps.fl) THEN Rend(ps, "val", a, verb, 0) ELSE W(ps, NilAngle))
       ELSE BadVerb(ps, verb)
  ELSE IF verb = VT THEN Rend(ps, "typefmt", a, VS, 0)               \* fmtS(type string): flags apply, current mode
  ELSE IF verb = VP THEN FmtPointer(ps, a, VP)
  ELSE CASE a.k = "bool"    -> FmtBool(ps, a, verb)
         [] a.k = "int"     -> FmtInteger(ps, a, TRUE, verb)
         [] a.k = "uint"    -> FmtInteger(ps, a, FALSE, verb)
         [] a.k = "float"   -> FmtFloat(ps, a, verb)
         [] a.k = "string"  -> FmtString(ps, a.b, "val", a, verb)
         [] a.k = "bytes"   -> FmtBytes(ps, a, verb)
         [] a.k = "complex" -> FmtComplex(ps, a, verb)
         [] a.k \in {"rstring", "rbytes"} ->
              LET m == ps.bs.mode o == ps.ov IN Restore(W(StartPreRedactable(ps), a.b), m, o)
         \* a reflect.Value operand: printArg handles the extractable value itself (printValue would not at depth 0)
         [] a.k = "rvalue" -> IF a.xs[1].k = "nil" THEN W(ps, InvReflectS)          \* reflect.ValueOf(nil) is invalid
                              ELSE PrintChecked(ps, a.xs[1], verb, 0, FALSE)
         [] a.k = "rvaluero" -> PrintChecked(ps, a.xs[1], verb, 0, TRUE)
         [] a.k = "invalidrv" -> W(ps, InvReflectS)
         [] OTHER -> LET hm == HandleMethods(ps, a, verb) IN
                     IF hm[1] THEN hm[2] ELSE PrintValue(hm[2], a, verb, 0, FALSE)

\* ---- printValue (print.go:820).  ro: reached through an unexported field (CanInterface false)
PrintValue(ps, v, verb, depth, ro) ==
  IF Exc(ps) THEN ps
  ELSE IF depth > 0 THEN PrintChecked(ps, v, verb, depth, ro)
  ELSE PrintKind(ps, v, verb, depth, ro)

\* special values, registry, SafeValue and method dispatch, then the switch on the kind: what printValue does
\* at depth > 0 and what printArg does itself for a reflect.Value operand (with depth 0)
PrintChecked(ps, v, verb, depth, ro) ==
    LET m == ps.bs.mode  o == ps.ov IN
    \* handleSpecialValues
    IF v.k = "safe"   THEN Restore(PrintElem(StartSafeOverride(ps), v.xs[1], verb, depth + 1, TRUE), m, o)
    ELSE IF v.k = "unsafe" THEN Restore(PrintElem(StartUnsafeOverride(ps), v.xs[1], verb, depth + 1, TRUE), m, o)
    ELSE IF v.k \in {"rstring", "rbytes"} THEN Restore(W(StartPreRedactable(ps), v.b), m, o)
    ELSE LET reg == IsRegistered(v)
             s1  == IF reg THEN StartSafeOverride(ps) ELSE ps
             m1  == s1.bs.mode  o1 == s1.ov
             sv  == ~ro /\ HasSafeValue(v)
             s2  == IF sv THEN StartSafeOverride(s1) ELSE s1
             hm  == IF ro THEN <<FALSE, s2>> ELSE HandleMethods(CurIface(s2, v), v, verb)
             r   == IF hm[1] THEN hm[2] ELSE PrintKind(hm[2], v, verb, depth, ro)
             r1  == IF sv THEN Restore(r, m1, o1) ELSE r
         IN IF reg THEN Restore(r1, m, o) ELSE r1

\* an interface-typed slot (slice element, map key/value, interface struct field holding nil):
\* first the Interface-kind level (SafeValue / methods on the dynamic value), then its Elem
PrintElem(ps, e, verb, depth, ro) ==
  IF Exc(ps) THEN ps
  ELSE LET m == ps.bs.mode  o == ps.ov
           sv == ~ro /\ HasSafeValue(e)
           s1 == IF sv THEN StartSafeOverride(ps) ELSE ps
           hm == IF ro THEN <<FALSE, s1>>
                 ELSE HandleMethods(CurIface(s1, e), e, verb)
           r  == IF hm[1] THEN hm[2]
                 ELSE IF IsNilIface(e)
                      THEN (IF hm[2].fl.sharpV THEN W(Rend(hm[2], "ifacetype", e, VS, 0), NilParen) ELSE W(hm[2], NilAngle))
                      ELSE PrintValue(hm[2], e, verb, depth + 1, ro)
       IN IF sv THEN Restore(r, m, o) ELSE r

\* the switch on value.Kind() of printValue; sets pp.arg = nil, pp.value = value first
PrintKind(ps0, v, verb, depth, ro) ==
  LET ps == [CurValue(ps0, v) EXCEPT !.cur.ro = ro] IN        \* the reflect.Value remembers how it was obtained
  CASE v.k = "bool"   -> FmtBool(ps, v, verb)
    [] v.k = "int"    -> FmtInteger(ps, v, TRUE, verb)
    [] v.k = "obj"    -> IF IsNilRecv(v) THEN FmtPointer(ps, v, verb)
                         ELSE FmtInteger(ps, v, "U8" \notin v.caps, verb)                                   \* named int / named uint8
    [] v.k = "uint"   -> FmtInteger(ps, v, FALSE, verb)
    [] v.k = "float"  -> FmtFloat(ps, v, verb)
    [] v.k \in {"string", "sstr"} -> FmtString(ps, v.b, "val", v, verb)
    [] v.k = "complex" -> FmtComplex(ps, v, verb)
    [] v.k = "bytes"  -> IF verb \in {VS, VQ, VX, VXX} THEN FmtBytes(ps, v, verb)
                         ELSE IF ps.fl.sharpV
                              THEN W(ByteElems(W(Rend(ps, "typename", v, VS, 0), <<123>>), v, verb, 1, TRUE), <<125>>)
                              ELSE W(ByteElems(W(ps, <<91>>), v, verb, 1, FALSE), <<93>>)
    [] v.k = "slice"  -> IF ps.fl.sharpV
                         THEN W(PrintSeq(W(Rend(ps, "typename", v, VS, 0), <<123>>), v.xs, verb, depth, ro, CommaSpace, 1), <<125>>)
                         ELSE W(PrintSeq(W(ps, <<91>>), v.xs, verb, depth, ro, <<SP>>, 1), <<93>>)
    \* []T with a concrete T: the elements go straight to printValue (depth+1); a uint8-kinded T with
    \* s q x X is a byte string (fmtBytes) whatever methods T has
    [] v.k \in {"tslice", "tarray"} -> IF verb \in {VS, VQ, VX, VXX} /\ Len(v.xs) > 0 /\ v.xs[1].k = "obj" /\ "U8" \in v.xs[1].caps
                         THEN UnsafeRend(ps, "val", v, verb)
                         ELSE IF ps.fl.sharpV
                         THEN W(PrintTSeq(W(Rend(ps, "typename", v, VS, 0), <<123>>), v.xs, verb, depth, ro, CommaSpace, 1), <<125>>)
                         ELSE W(PrintTSeq(W(ps, <<91>>), v.xs, verb, depth, ro, <<SP>>, 1), <<93>>)
    [] v.k = "tmap"   -> IF ps.fl.sharpV
                         THEN W(PrintTMap(W(Rend(ps, "typename", v, VS, 0), <<123>>), v.xs, verb, depth, ro, 1), <<125>>)
                         ELSE W(PrintTMap(W(ps, MapOpen), v.xs, verb, depth, ro, 1), <<93>>)
    [] v.k = "map"    -> IF ps.fl.sharpV
                         THEN W(PrintMap(W(Rend(ps, "typename", v, VS, 0), <<123>>), v.xs, verb, depth, ro, 1), <<125>>)
                         ELSE W(PrintMap(W(ps, MapOpen), v.xs, verb, depth, ro, 1), <<93>>)
    [] v.k = "struct" -> LET a == IF ps.fl.sharpV THEN Rend(ps, "typename", v, VS, 0) ELSE ps
                         IN W(PrintFields(W(a, <<123>>), v, verb, depth, ro, 1), <<125>>)
    \* a wrapper reached as a plain struct (depth 0, methods suppressed by erroring): struct{a interface{}}
    [] v.k \in {"safe", "unsafe"} ->
                         LET a == IF ps.fl.sharpV THEN Rend(ps, "typename", v, VS, 0) ELSE ps
                             sv == [v EXCEPT !.k = "struct", !.ro = <<TRUE>>]
                         IN W(PrintFields(W(a, <<123>>), sv, verb, depth, ro, 1), <<125>>)
    [] v.k = "ptrto"  -> IF depth = 0 /\ v.xs[1].k \in {"slice", "struct", "map", "tslice", "tmap", "tarray"} THEN PrintValue(W(ps, <<38>>), v.xs[1], verb, depth + 1, ro)
                         ELSE FmtPointer(ps, v, verb)
    [] v.k = "nilptr" -> FmtPointer(ps, v, verb)
    [] v.k \in {"chan", "func"} -> FmtPointer(ps, v, verb)          \* case reflect.Chan, reflect.Func, reflect.UnsafePointer
    [] OTHER          -> ps

PrintSeq(ps, xs, verb, depth, ro, sep, i) ==
  IF i > Len(xs) \/ Exc(ps) THEN ps
  ELSE PrintSeq(PrintElem(IF i > 1 THEN W(ps, sep) ELSE ps, xs[i], verb, depth + 1, ro), xs, verb, depth, ro, sep, i + 1)

PrintTSeq(ps, xs, verb, depth, ro, sep, i) ==
  IF i > Len(xs) \/ Exc(ps) THEN ps
  ELSE PrintTSeq(PrintValue(IF i > 1 THEN W(ps, sep) ELSE ps, xs[i], verb, depth + 1, ro), xs, verb, depth, ro, sep, i + 1)

PrintTMap(ps, kvs, verb, depth, ro, i) ==
  IF 2 * i > Len(kvs) \/ Exc(ps) THEN ps
  ELSE LET a == IF i > 1 THEN W(ps, IF ps.fl.sharpV THEN CommaSpace ELSE <<SP>>) ELSE ps
           b == W(PrintValue(a, kvs[2 * i - 1], verb, depth + 1, ro), <<58>>)
       IN PrintTMap(PrintValue(b, kvs[2 * i], verb, depth + 1, ro), kvs, verb, depth, ro, i + 1)

PrintMap(ps, kvs, verb, depth, ro, i) ==      \* kvs = k1, v1, k2, v2, .. in fmtsort order
  IF 2 * i > Len(kvs) \/ Exc(ps) THEN ps
  ELSE LET a == IF i > 1 THEN W(ps, IF ps.fl.sharpV THEN CommaSpace ELSE <<SP>>) ELSE ps
           b == W(PrintElem(a, kvs[2 * i - 1], verb, depth + 1, ro), <<58>>)
       IN PrintMap(PrintElem(b, kvs[2 * i], verb, depth + 1, ro), kvs, verb, depth, ro, i + 1)

FieldName(i, unexported) == <<(IF unexported THEN 96 ELSE 64) + i>>     \* A B C.. / a b c..
PrintFields(ps, v, verb, depth, ro, i) ==
  IF i > Len(v.xs) \/ Exc(ps) THEN ps
  ELSE LET a == IF i > 1 THEN W(ps, IF ps.fl.sharpV THEN CommaSpace ELSE <<SP>>) ELSE ps
           b == IF ps.fl.plusV \/ ps.fl.sharpV THEN W(W(a, FieldName(i, v.ro[i])), <<58>>) ELSE a
           fro == ro \/ v.ro[i]
           \* getField unwraps a non-nil interface: the concrete value is printed directly
           c == IF IsNilIface(v.xs[i]) THEN PrintElem(b, v.xs[i], verb, depth + 1, fro)
                ELSE PrintValue(b, v.xs[i], verb, depth + 1, fro)
       IN PrintFields(c, v, verb, depth, ro, i + 1)

\* ---- doPrint / doPrintf (print.go:1091, 1267)
DoPrintArgs(ps, ts, i, prevString) ==
  IF i > Len(ts) \/ Exc(ps) THEN ps
  ELSE LET isString == IsStringKind(ts[i])
           a == IF i > 1 /\ ~isString /\ ~prevString THEN WByte(ps, SP) ELSE ps
       IN DoPrintArgs(PrintArg(a, ts[i], VV), ts, i + 1, isString)
\* doPrint*/doPrintf start in safe mode -- since the repair of F3 not under an Unsafe() override
EnterPrint(ps) == IF NestedOverride = "inherited" /\ ps.ov = "unsafe" THEN ps ELSE SetMode(ps, MS)
DoPrint(ps, ts) == DoPrintArgs(EnterPrint(ps), ts, 1, FALSE)

\* doPrintln: a space between all operands, a line feed at the end
RECURSIVE DoPrintlnArgs(_, _, _)
DoPrintlnArgs(ps, ts, i) ==
  IF i > Len(ts) \/ Exc(ps) THEN ps
  ELSE DoPrintlnArgs(PrintArg(IF i > 1 THEN WByte(ps, SP) ELSE ps, ts[i], VV), ts, i + 1)
DoPrintln(ps, ts) == WByte(DoPrintlnArgs(EnterPrint(ps), ts, 1), NL)

ArgInfo(ts) == [i \in 1..Len(ts) |->
                  IF ts[i].k \in {"int", "uint"} THEN [isInt |-> TRUE, num |-> ts[i].n] ELSE [isInt |-> FALSE, num |-> 0]]

DoExtra(ps, ts, i) ==
  IF i > Len(ts) \/ Exc(ps) THEN ps
  ELSE LET a == IF i > 1 THEN W(ps, CommaSpace) ELSE ps
           \* doPrintf's EXTRA loop starts at argNum: callers pass the suffix, i counts within it
           b == IF IsNilIface(ts[i]) THEN W(a, NilAngle)
                ELSE PrintArg(WByte(Rend(a, "typename", ts[i], VS, 0), 61), ts[i], VV)
       IN DoExtra(b, ts, i + 1)

DoItems(ps, items, ts) ==
  IF items = <<>> \/ Exc(ps) THEN ps
  ELSE LET it == Head(items)
           r == CASE it.t = "Lit"      -> W(ps, it.b)
                  [] it.t = "Pct"      -> WByte(ps, Pct)
                  [] it.t = "Arg"      -> PrintArg([ps EXCEPT !.fl = it.fl], ts[it.a + 1], it.v)
                  [] it.t = "BadWidth" -> W(ps, BadWidthS)
                  [] it.t = "BadPrec"  -> W(ps, BadPrecS)
                  [] it.t = "NoVerb"   -> W(ps, NoVerbS)
                  [] it.t = "BadIdx"   -> W(W(W(ps, PercentBang), EncodeRune(it.v)), BadIndexS)
                  [] it.t = "Missing"  -> W(W(W(ps, PercentBang), EncodeRune(it.v)), MissingS)
                  [] it.t = "Extra"    -> WByte(DoExtra(W([ps EXCEPT !.fl = ClearFlags(@)], ExtraS),
                                                        SubSeq(ts, it.a + 1, Len(ts)), 1), 41)
       IN DoItems(r, Tail(items), ts)
DoPrintf(ps, f, ts) == DoItems(EnterPrint(ps), ParseFormat(f, ArgInfo(ts)), ts)

---------------------------------------------------------------------------
\* builder/builder.go: StringBuilder = Buffer + one SetMode before each call; Print/Printf write the
\* FINISHED output of a separate Fprint/Fprintf in PreRedactable mode.  The state record is a ps
\* (only bs, rt, calls, exc are used) so that renderings are numbered like everywhere else.
SBNested(ps) == [NewPS EXCEPT !.rt = ps.rt, !.calls = ps.calls]
SBWriteOut(ps, r) ==      \* b.SetMode(PreRedactable); Fprint(&b.Buffer, ...) -> one Write of the whole text
  LET s == SetMode(ps, MR) IN
  IF Exc(r) THEN [s EXCEPT !.exc = r.exc, !.rt = r.rt, !.calls = r.calls]
  ELSE W([s EXCEPT !.rt = r.rt, !.calls = r.calls], BOut(r.bs))
RECURSIVE SBRunOps(_, _)
SBOp(ps, op) ==
  IF Exc(ps) THEN ps ELSE
  CASE op.o \in {"SafeString", "SafeBytes"}     -> W(SetMode(ps, MS), op.b)
    [] op.o = "SafeRune"                          -> WRune(SetMode(ps, MS), op.n)
    [] op.o = "SafeByte"                          -> WByte(SetMode(ps, MS), op.n)
    \* SafeInt: SetMode(SafeEscaped); Fprintf(&b.Buffer, "%d", s) -- the digits, written in safe mode
    [] op.o \in {"SafeInt", "SafeUint"}            -> Rend([SetMode(ps, MS) EXCEPT !.fl = NoFlags], "val", op.ts[1], VD, 0)
    [] op.o = "SafeFloat"                         -> Rend([SetMode(ps, MS) EXCEPT !.fl = NoFlags], "val", op.ts[1], VV, 0)
    [] op.o \in {"UnsafeString", "UnsafeBytes", "Write", "WriteString"} -> W(SetMode(ps, MU), op.b)
    [] op.o \in {"UnsafeRune", "WriteRune"}        -> WRune(SetMode(ps, MU), op.n)
    [] op.o \in {"UnsafeByte", "WriteByte"}        -> WByte(SetMode(ps, MU), op.n)
    [] op.o = "Print"                             -> SBWriteOut(ps, DoPrint(SBNested(ps), op.ts))
    [] op.o = "Printf"                            -> SBWriteOut(ps, DoPrintf(SBNested(ps), op.f, op.ts))
    [] op.o = "Panic"                             -> [ps EXCEPT !.exc = op.ts]
    [] op.o = "JoinTo"                            -> SBRunOps(ps, JoinOps(op))
SBRunOps(ps, ops) == IF ops = <<>> THEN ps ELSE SBRunOps(SBOp(ps, Head(ops)), Tail(ops))
SBRun(ops) == SBRunOps(NewPS, ops)
\* a builder.StringBuilder as an OPERAND: b is what it holds (RedactableString() after the SafeWriter calls ops, byte
\* payloads only), computed when the term is built so that the printer operators need not call the builder layer.  It is a
\* SafeFormatter (prints its content as the redactable it is, whatever the verb) and a Stringer (content without markers).
TBuilder(id, ops) == [T0 EXCEPT !.k = "builder", !.id = id, !.scr = ops, !.b = BOut(SBRun(ops).bs)]
BuilderText(a) == a.b

---------------------------------------------------------------------------
\* entry points: the final printer state; Out is what the caller gets (none if the panic propagated)
Sprintf(f, ts)   == DoPrintf(NewPS, f, ts)
Sprint(ts)       == DoPrint(NewPS, ts)
Sprintln(ts)     == DoPrintln(NewPS, ts)
Sprintfn(scr)    == RunScript(NewPS, scr, VV, T0)
Errorf(f, ts)    == DoPrintf([NewPS EXCEPT !.wrapErrs = TRUE], f, ts)
Out(r)           == BOut(r.bs)
=============================================================================
