package main

import (
	"encoding/json"
	"flag"
	"fmt"
	"strings"

	"github.com/cockroachdb/redact"
	"github.com/cockroachdb/redact/verifharness/lib"
)

// builder-drive (C13 on builder.StringBuilder): every sequence of at most -len operations over
// {SafeString, UnsafeString (payloads of equal and of different lengths), Print, Reset, TakeRedactableString,
// TakeRedactableBytes, and the accessors RedactableString / RedactableBytes / String / Len}.  After every
// sequence (judged at its end only, so that no accessor call of the judge sits between the operations; every prefix
// is a sequence of its own) the builder must show exactly what a NEW builder shows after the writes since the last Reset/Take
// (accessors are pure, Reset/Take give a pristine object), Len must be the length of RedactableString, and
// what Take returned must stay what it was.

type bdOp struct {
	O string `json:"o"`
	P string `json:"p"`
}

type bdCase struct {
	Kind string `json:"kind"`
	Ops  []bdOp `json:"ops"`
}

var bdAlphabet = []bdOp{
	{"S", "user="}, {"U", "alice"}, {"U", "carol"}, {"U", "x\n"}, {"U", ""}, {"P", "bobby"}, {"S", "‹"},
	{"RST", ""}, {"TKS", ""}, {"TKB", ""}, {"RS", ""}, {"RB", ""}, {"STR", ""}, {"LEN", ""},
	// "echo": a safe string exactly as long as the builder's content was after the first / the last write of the epoch
	// before the last Reset / Take -- anything remembered about the old content by its LENGTH (an offset cached for a
	// fast path) meets the same length again in the new epoch
	{"EF", ""}, {"EL", ""},
}

func bdApplyWrite(sb *redact.StringBuilder, o bdOp) {
	switch o.O {
	case "S":
		sb.SafeString(redact.SafeString(o.P))
	case "U":
		sb.UnsafeString(o.P)
	case "P":
		sb.Print(o.P, 7)
	}
}

func judgeBuilder(rep *lib.Report, k bdCase) {
	var sb redact.StringBuilder
	var since []bdOp // writes since the last Reset / Take
	type taken struct {
		s    redact.RedactableString
		copy string
	}
	var kept []taken
	echoF, echoL := 0, 0 // finalized lengths after the first / last write of the previous epoch (computed on builders of their own)
	epochEnds := func() {
		echoF, echoL = 0, 0
		var fb redact.StringBuilder
		for j, w := range since {
			bdApplyWrite(&fb, w)
			if j == 0 {
				echoF = len(fb.RedactableString())
			}
		}
		echoL = len(fb.RedactableString())
	}
	desc := func(i int) string {
		var parts []string
		for _, o := range k.Ops[:i+1] {
			parts = append(parts, fmt.Sprintf("%s(%q)", o.O, o.P))
		}
		return strings.Join(parts, "; ")
	}
	for i, o := range k.Ops {
		switch o.O {
		case "EF", "EL":
			n := echoF
			if o.O == "EL" {
				n = echoL
			}
			o = bdOp{"S", strings.Repeat("e", n)}
			bdApplyWrite(&sb, o)
			since = append(since, o)
		case "S", "U", "P":
			bdApplyWrite(&sb, o)
			since = append(since, o)
		case "RST":
			epochEnds()
			sb.Reset()
			since = nil
		case "TKS":
			epochEnds()
			r := sb.TakeRedactableString()
			kept = append(kept, taken{r, string(append([]byte(nil), r...))})
			since = nil
		case "TKB":
			epochEnds()
			r := sb.TakeRedactableBytes()
			kept = append(kept, taken{redact.RedactableString(string(r)), string(r)})
			since = nil
		case "RS":
			_ = sb.RedactableString()
		case "RB":
			_ = sb.RedactableBytes()
		case "STR":
			_ = sb.String()
		case "LEN":
			_ = sb.Len()
		}
		if i != len(k.Ops)-1 {
			continue // judged only at the end: the accessor calls of the judge itself must not sit between the operations
		}
		rep.AddEval(1)
		var fresh redact.StringBuilder
		for _, w := range since {
			bdApplyWrite(&fresh, w)
		}
		want := fresh.RedactableString()
		if got := sb.RedactableString(); got != want {
			rep.Violate("builder:not-like-new", fmt.Sprintf("after %s the builder shows %q, a new builder given the writes since the last Reset/Take shows %q", desc(i), got, want), k)
			return
		}
		if got := string(sb.RedactableBytes()); got != string(want) {
			rep.Violate("builder:accessors-disagree", fmt.Sprintf("after %s RedactableBytes is %q, RedactableString %q", desc(i), got, want), k)
			return
		}
		if sb.Len() != len(want) || sb.String() != want.StripMarkers() {
			rep.Violate("builder:len-or-string", fmt.Sprintf("after %s Len()=%d String()=%q for %q", desc(i), sb.Len(), sb.String(), want), k)
			return
		}
		for _, t := range kept {
			if string(t.s) != t.copy {
				rep.Violate("builder:taken-result-mutated", fmt.Sprintf("after %s a string taken earlier changed: %q -> %q", desc(i), t.copy, t.s), k)
				return
			}
		}
	}
	rep.Nontrivial(desc(len(k.Ops) - 1))
}

func builderDrive(args []string) {
	fs := flag.NewFlagSet("builder-drive", flag.ExitOnError)
	prop := fs.String("prop", "C13", "")
	maxLen := fs.Int("len", 4, "")
	fs.Parse(args)
	rep := lib.NewReport(*prop, "builder-drive")
	var gen func(prefix []bdOp, d int, emit func(bdCase))
	gen = func(prefix []bdOp, d int, emit func(bdCase)) {
		if len(prefix) > 0 {
			emit(bdCase{"builder", append([]bdOp(nil), prefix...)})
		}
		if d == 0 {
			return
		}
		for _, o := range bdAlphabet {
			gen(append(prefix, o), d-1, emit)
		}
	}
	lib.Parallel(8, func(emit func(bdCase)) { gen(nil, *maxLen, emit) }, func(k bdCase) {
		rep.Guard("builder:panic", k, func() { judgeBuilder(rep, k) })
	})
	rep.SampleIfFew(map[string]interface{}{"alphabet": len(bdAlphabet), "length": *maxLen})
	rep.Finish()
}

func init() {
	register("builder-drive", "C13: every short history of StringBuilder writes, Reset/Take and accessors vs a new builder", builderDrive)
	extraReplayers["builder"] = func(rep *lib.Report, prop string, raw json.RawMessage) {
		var k bdCase
		_ = json.Unmarshal(raw, &k)
		judgeBuilder(rep, k)
	}
}
