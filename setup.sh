#!/bin/sh
# Offline setup: build the conformance harness once (warms the Go build cache)
# and parse every TLA+ module so that a broken specification fails fast.
set -e
cd "$(dirname "$0")"
export GOFLAGS=-mod=mod GOPROXY=off GOSUMDB=off GOTOOLCHAIN=local
mkdir -p .work/setup evidence
(cd harness && go build -tags verif -o ../.work/setup/conf ./cmd/conf)
cp spec/*.tla spec/trace/*.tla .work/setup/ 2>/dev/null || true
cd .work/setup
for f in *.tla; do
  if ! timeout 120 tla-sany "$f" > sany.out 2>&1; then cat sany.out; echo "SANY failed on $f"; exit 1; fi
  if grep -q "Fatal errors\|\*\*\* Errors" sany.out; then cat sany.out; echo "SANY errors in $f"; exit 1; fi
done
cd ../.. && rm -rf .work/setup && rmdir .work 2>/dev/null || true
echo "setup ok"
