package main

import (
	"errors"
	"flag"
	"fmt"
	"math"
	"math/rand"
	"reflect"
	"strconv"
	"strings"
	"unicode/utf8"

	"github.com/cockroachdb/redact"
	"github.com/cockroachdb/redact/verifharness/lib"
)

// ---- the fmt-compatible value universe of C04 ------------------------------

type namedInt int
type namedString string
type namedBytes []byte
type namedFloat float64
type namedBool bool
type namedArr [3]byte
type namedByte uint8
type strStringer string

func (s strStringer) String() string { return "S(" + string(s) + ")" }

type errT struct{ msg string }

func (e *errT) Error() string { return e.msg }

type valErr struct{ msg string }

func (e valErr) Error() string { return e.msg }

type goStr struct{ s string }

func (g goStr) GoString() string { return "GO<" + g.s + ">" }

type panicStringer struct{ payload interface{} }

func (p panicStringer) String() string { panic(p.payload) }

type panicErr struct{ payload interface{} }

func (p panicErr) Error() string { panic(p.payload) }

type panicFormatter struct{ payload interface{} }

func (p panicFormatter) Format(s fmt.State, verb rune) {
	s.Write([]byte("partial"))
	panic(p.payload)
}

type panicGoStr struct{}

func (panicGoStr) GoString() string { panic("gostring-boom") }

type ptrStringer struct{ s string }

func (p *ptrStringer) String() string { return "PS:" + p.s } // nil receiver -> nil deref panic -> <nil>

type nilOKStringer struct{ s string }

func (p *nilOKStringer) String() string {
	if p == nil {
		return "nil-ok"
	}
	return p.s
}

// echoFormatter writes whole UTF-8 strings and uses Width/Precision only when ok.
type echoFormatter struct{ tag string }

func (e echoFormatter) Format(s fmt.State, verb rune) {
	var sb strings.Builder
	sb.WriteString("F[" + e.tag + ":")
	sb.WriteRune(verb)
	for _, c := range "+-# 0" {
		if s.Flag(int(c)) {
			sb.WriteRune(c)
		}
	}
	if w, ok := s.Width(); ok {
		fmt.Fprintf(&sb, "w%d", w)
	}
	if p, ok := s.Precision(); ok {
		fmt.Fprintf(&sb, "p%d", p)
	}
	sb.WriteString("]")
	s.Write([]byte(sb.String()))
}

type inner struct {
	A int
	b string
	C interface{}
}
type outer struct {
	X  inner
	P  *inner
	S  []interface{}
	M  map[string]int
	e  error
	St fmt.Stringer
}

type unprintablePanic struct{}

func (unprintablePanic) String() string { panic("inner-boom") }

// universe returns fresh fmt-compatible operands (some hold pointers, so build per call).
type namedF32 float32

type ifaceHolder struct{ V interface{} }

func universe(r *rand.Rand) []interface{} {
	strs := []string{"", "a", "hello world", "é世😀", "with ‹marker› inside", "›‹", "line1\nline2", "\n", "tab\tq\"uote", "×", "a ‹×› b"}
	s := strs[r.Intn(len(strs))]
	n := []int{0, 1, -1, 42, -1000000, math.MaxInt32, 0x2039, 0x203A, 10, 65}[r.Intn(10)]
	return universeOf(s, n, s, n)
}

// universeOf builds the universe from a string s and an int n; the members that are DECLARED safe (SafeString,
// SafeInt, ...) are built from ps and pn instead (C02: public values are shared by two instantiations).
func universeOf(s string, n int, ps string, pn int) []interface{} {
	in := inner{n, s, 7}
	var nilErrT *errT
	var nilPS *ptrStringer
	var nilOK *nilOKStringer
	var nilMap map[string]int
	var nilSlice []int
	var nilIface interface{}
	var nilErr error
	x := 5
	return []interface{}{
		true, false, n, int8(n), int16(n), int32(n), int64(n), uint(uint32(n)), uint8(n), uint16(n), uint32(n), uint64(n), uintptr(uint32(n)),
		float32(n) / 3, float64(n) / 7, math.Inf(1), math.NaN(), complex(float32(n), 2), complex(float64(n), -0.5),
		s, []byte(s), [3]byte{1, 'b', 'a'}, namedInt(n), namedString(s), namedBytes(s), namedFloat(n), namedBool(true),
		[]int{1, n}, []string{s, "x"}, []interface{}{n, s, nil, 2.5}, [2]bool{true, false}, nilSlice, []int{},
		map[string]int{"a": 1, s: n}, map[int]string{1: s, n: "z"}, nilMap, map[interface{}]interface{}{1: s, "k": n},
		in, &in, outer{in, &in, []interface{}{s, n}, map[string]int{s: 1}, errors.New(s), strStringer(s)}, &outer{},
		&x, (*int)(nil), nil, nilIface, nilErr, struct{}{}, struct{ A, B interface{} }{nil, s},
		reflect.ValueOf(n), reflect.ValueOf(s), reflect.ValueOf(in), reflect.ValueOf(&in), reflect.Value{}, reflect.ValueOf(nilIface),
		strStringer(s), errors.New(s), &errT{s}, valErr{s}, nilErrT, nilPS, nilOK, &ptrStringer{s}, &nilOKStringer{s},
		goStr{s}, echoFormatter{"t"}, &echoFormatter{"p"},
		panicStringer{s}, panicStringer{n}, panicStringer{errors.New(s)}, panicErr{s}, panicFormatter{s}, panicGoStr{}, panicStringer{nil},
		panicStringer{unprintablePanic{}},
		redact.SafeString(ps), redact.SafeInt(pn), redact.SafeUint(uint32(pn)), redact.SafeFloat(float64(pn) / 3), redact.SafeRune(rune(pn)),
		make(chan int), func() {}, [][]interface{}{{1, s}, {nil}}, []error{errors.New(s), nil}, []fmt.Stringer{strStringer(s)},
		[]*inner{&in, nil}, map[string]interface{}{"e": errors.New(s), "n": nil},
		struct {
			A fmt.Stringer
			B int
			C string
		}{panicStringer{s}, n, s},
		[]interface{}{panicStringer{"p"}, s, uint8(n), n}, []interface{}{panicErr{s}, echoFormatter{"after"}},
		map[string]interface{}{"a": panicStringer{"m"}, "b": s, "c": uint(7)}, namedArr{1, 2, 'c'}, [2]namedByte{3, 'z'},
		// narrow kinds reached by reflection (elements, fields, map values, named types, reflect.Value): values that are
		// not short decimals in binary print differently at 32 and at 64 bits
		[]float32{0.1, float32(n) / 3}, [2]float32{0.7, 1e-7}, map[string]float32{"k": 0.3}, namedF32(0.1), reflect.ValueOf(float32(0.1)),
		struct {
			F float32
			C complex64
			I int8
			U uint16
		}{0.1, complex(float32(0.1), 0.7), int8(-n), uint16(n)}, []complex64{complex(0.1, 0.2)}, []int8{-3, int8(n)}, []uint16{9, uint16(n)},
		[]interface{}{float32(0.1), complex64(complex(0.3, 0.1))},
		// reflect.Values of Kind Interface (obtained by Elem / Index / Field, never by ValueOf) holding pointers, containers, nil
		reflect.ValueOf(&ifaceHolder{&in}).Elem().Field(0), reflect.ValueOf([]interface{}{&in, []int{n}, nil}).Index(0),
		reflect.ValueOf([]interface{}{&in, []int{n}, nil}).Index(1), reflect.ValueOf([]interface{}{&in, []int{n}, nil}).Index(2),
		reflect.ValueOf(map[string]interface{}{"k": &x}).MapIndex(reflect.ValueOf("k")),
		// maps whose interface-typed keys include nil (the key order compares a zero reflect.Value)
		map[interface{}]int{nil: 1, "a": 2, 3: n}, map[error]int{nil: 0, nilErr: 2}, map[fmt.Stringer]string{nil: s, strStringer("k"): "v"},
		map[[2]interface{}]int{{nil, 1}: 1, {"a", nil}: 2, {nil, nil}: n},
		// integers beyond 32 bits (whose low bits look like a rune), extreme map keys (key order by comparison, not subtraction)
		int64(1)<<32 | 'A', uint64(7)<<40 | 0x2318, int64(math.MinInt64), uint64(math.MaxUint64), int64(0x10FFFF + 1), int64(0xD800),
		map[int64]string{math.MinInt64: "lo", 1: "one", math.MaxInt64: "hi", -3: s}, map[int]bool{-5: true, 7: false, math.MinInt64: true},
		map[uint64]int{math.MaxUint64: 1, 0: 2, 1 << 63: n}, map[float64]string{math.Inf(-1): "a", math.NaN(): "b", 0: s, math.Inf(1): "c"},
		map[[2]int]string{{1, 2}: "x", {1, -9}: s, {math.MinInt64, 0}: "z"},
		// maps inside maps (an inner map printed while the outer one's entries are being walked)
		map[string]interface{}{"a": map[string]int{"x": 1, "y": 2, "z": n}, "m": map[int]string{2: s, 1: "o"}, "y": 2},
		map[int]map[string][]int{1: {"p": {1, 2}, "q": nil}, 0: {}, 2: {"r": {n}}},
		[]map[string]interface{}{{"k": map[string]string{"i": s}, "l": 1}, nil},
		// types whose NAME holds marker characters, line feeds and partial markers (struct tags are part of the name of an
		// unnamed struct type): %T, %#v, bad-verb and EXTRA reports print it
		struct {
			ID int `help:"‹"`
		}{n}, []struct {
			A string "t:\"›x‹\""
		}{{s}}, map[struct {
			K int "a:\"‹\u00d7›\""
		}]struct {
			V string "p:\"\xe2\x80\""
		}{{1}: {s}}, &struct {
			P *int `m:"‹×›"`
		}{},
	}
}

var diffVerbs = []string{"v", "v", "v", "s", "d", "q", "x", "X", "t", "b", "o", "O", "c", "U", "e", "E", "f", "F", "g", "G", "p", "T", "Z", "é", "!", "z", "%"}
var diffFlags = []string{"", "", "", "+", "-", "#", " ", "0", "0", "+#", "#0", "+0", "+ ", "-#", "# ", "+#0 "}
var diffWidths = []string{"", "", "", "1", "5", "12", "70", "100", "1000", "*", "[2]*", "[1]", "[3]", "[9]", "[0]", "[0]*", "[1]*", "[2]*[1]"}
var diffPrecs = []string{"", "", "", ".", ".0", ".2", ".10", ".80", ".*", ".[1]*", ".[0]*", ".[2]*[1]"}
var diffLits = []string{"", "", " ", "lit", "‹", "›x", "\n", "é", "%%", "a‹b›c", "\xE2\x80"}

func randFormat(r *rand.Rand) string {
	var sb strings.Builder
	k := r.Intn(4)
	for i := 0; i < k; i++ {
		sb.WriteString(diffLits[r.Intn(len(diffLits))])
		fl := diffFlags[r.Intn(len(diffFlags))]
		sb.WriteString("%" + fl + diffWidths[r.Intn(len(diffWidths))] + diffPrecs[r.Intn(len(diffPrecs))] + diffVerbs[r.Intn(len(diffVerbs))])
	}
	sb.WriteString(diffLits[r.Intn(len(diffLits))])
	if r.Intn(30) == 0 {
		sb.WriteString("%")
	}
	return sb.String()
}

func hasWidthOrPrec(f string) bool {
	for _, d := range strings.Split(f, "%")[1:] {
		for _, c := range d {
			if c >= '1' && c <= '9' || c == '*' || c == '.' {
				return true
			}
			if c >= 'a' && c <= 'z' || c >= 'A' && c <= 'Z' {
				break
			}
		}
	}
	return false
}

// excludedFormat: directives whose fmt semantics changed across Go releases (C04's own exclusions).
func excludedFormat(f string, args []interface{}) bool {
	if strings.Contains(f, "w") {
		return true
	}
	// '0' together with '-' (also through a negative star width)
	for _, d := range strings.Split(f, "%")[1:] {
		i := 0
		z, m, star := false, false, false
		for i < len(d) && strings.ContainsRune("+-# 0", rune(d[i])) {
			if d[i] == '0' {
				z = true
			}
			if d[i] == '-' {
				m = true
			}
			i++
		}
		star = strings.Contains(d, "*")
		if z && (m || star) {
			return true
		}
	}
	return false
}

type diffCase struct {
	Kind   string `json:"kind"`
	Format string `json:"format"`
	Seed   int64  `json:"seed"`
	Idx    []int  `json:"idx"`
	Route  int    `json:"route"`
}

type writerBuf struct{ b []byte }

func (w *writerBuf) Write(p []byte) (int, error) { w.b = append(w.b, p...); return len(p), nil }

// runDiff runs one (format, operands) case through redact and fmt by route:
// 0 Sprintf 1 Sprint 2 Fprintf 3 Fprint.  Operands are picked by index from a
// universe built with the given seed (so the case is replayable).
func runDiff(rep *lib.Report, c diffCase) {
	mk := func() []interface{} {
		u := universe(rand.New(rand.NewSource(c.Seed)))
		var a []interface{}
		for _, i := range c.Idx {
			a = append(a, u[i%len(u)])
		}
		return a
	}
	// both libraries get the SAME operand objects (pointer addresses are part of the output)
	args := mk()
	var red, std string
	var rp, sp interface{}
	func() {
		defer func() { rp = recover() }()
		switch c.Route {
		case 0:
			red = string(redact.Sprintf(c.Format, args...))
		case 1:
			red = string(redact.Sprint(args...))
		case 2:
			var w writerBuf
			redact.Fprintf(&w, c.Format, args...)
			red = string(w.b)
		case 3:
			var w writerBuf
			redact.Fprint(&w, args...)
			red = string(w.b)
		}
	}()
	func() {
		defer func() { sp = recover() }()
		switch c.Route {
		case 0, 2:
			std = fmt.Sprintf(c.Format, args...)
		case 1, 3:
			std = fmt.Sprint(args...)
		}
	}()
	rep.AddEval(1)
	if (rp != nil) != (sp != nil) {
		rep.Violate("fmtdiff:panic-mismatch", fmt.Sprintf("format %q: redact panic=%v, fmt panic=%v", c.Format, rp, sp), c)
		return
	}
	if rp != nil {
		return
	}
	if !lib.WellFormed([]byte(red)) {
		rep.Violate("fmtdiff:illformed", fmt.Sprintf("format %q: output %q", c.Format, red), c)
		return
	}
	if !lib.LineSafe([]byte(red)) {
		rep.Violate("fmtdiff:linespan", fmt.Sprintf("format %q: an envelope spans a line feed: %q", c.Format, red), c)
	}
	got := redact.RedactableString(red).StripMarkers()
	want := string(lib.EscapeAll([]byte(std)))
	if got != want && strings.Contains(std, "(PANIC=") && hasWidthOrPrec(c.Format) {
		// toolchain drift (O1): after a contained panic Go >= 1.21's fmt has lost the directive's width and
		// precision (clearflags zeroes them, only the flag bits are restored); the fork's base keeps them
		rep.Nontrivial("skipped:panic+width")
		return
	}
	if got != want && !utf8.ValidString(c.Format) && c.Route%2 == 0 &&
		strings.ReplaceAll(got, "?", "") == strings.ReplaceAll(want, "?", "") {
		// F7: a format literal that ends in a truncated multi-byte sequence gets the '?' guard
		rep.Violate("fmtdiff:dangling-literal", fmt.Sprintf("format %q: stripped redact output %q, fmt %q", c.Format, got, want), c)
	} else if got != want {
		rep.Violate("fmtdiff:mismatch", fmt.Sprintf("route %d format %q: stripped redact output %q, fmt (markers escaped) %q", c.Route, c.Format, got, want), c)
	}
	rep.Nontrivial(fmt.Sprintf("%d|%s|%s", c.Route, c.Format, got))
}

func fmtdiffDrive(args []string) {
	fs := flag.NewFlagSet("fmtdiff-drive", flag.ExitOnError)
	n := fs.Int("n", 200000, "")
	prop := fs.String("prop", "C04", "")
	fs.Parse(args)
	rep := lib.NewReport(*prop, "fmtdiff-drive")
	defer installPoolMonitor(rep)()
	if *prop == "C11" {
		// C11 only asks that redact does not panic where fmt does not
		rep.Filter = func(sig string) bool { return strings.Contains(sig, "panic") }
	}
	if *prop == "C01" || *prop == "C03" {
		// well-formedness and line-safety of everything printed for the whole value universe
		rep.Filter = func(sig string) bool { return strings.Contains(sig, "illformed") || strings.Contains(sig, "linespan") }
	}
	usize := len(universe(rand.New(rand.NewSource(1))))
	rep.Extra["universe_size"] = usize
	shard(*n, lib.Seed(), func(r *rand.Rand, cnt int) {
		for i := 0; i < cnt; i++ {
			c := diffCase{Kind: "fmtdiff", Seed: r.Int63(), Route: r.Intn(4)}
			k := r.Intn(4)
			for j := 0; j < k; j++ {
				c.Idx = append(c.Idx, r.Intn(usize))
			}
			for {
				c.Format = randFormat(r)
				u := universe(rand.New(rand.NewSource(c.Seed)))
				var a []interface{}
				for _, ix := range c.Idx {
					a = append(a, u[ix])
				}
				if !excludedFormat(c.Format, a) {
					break
				}
			}
			runDiff(rep, c)
			if i == 0 {
				rep.Sample(map[string]interface{}{"format": c.Format, "operand_indexes": c.Idx, "route": c.Route})
			}
		}
	})
	// systematic part: every universe value x every verb x a flag/width grid, single operand
	u0 := universe(rand.New(rand.NewSource(lib.Seed())))
	type job struct {
		f string
		i int
	}
	var jobs []job
	for i := range u0 {
		for _, v := range []string{"v", "s", "d", "q", "x", "X", "t", "b", "o", "O", "c", "U", "e", "f", "g", "p", "T", "Z"} {
			for _, fl := range []string{"", "+", "#", "-8", "08", "+#", " .3", "12.1", "#-6.2", "070", "0100", "+072", "#090", "-90", ".70", "090.80"} {
				if strings.Contains(fl, "0") && strings.Contains(fl, "-") {
					continue
				}
				jobs = append(jobs, job{"%" + fl + v, i})
			}
		}
	}
	// every width and precision 0..300 (tables of padding bytes, scratch buffers and digit counts have their edges
	// somewhere in there) and a few larger ones, on every seventh value of the universe
	var ns []string
	for n := 0; n <= 300; n++ {
		ns = append(ns, strconv.Itoa(n))
	}
	ns = append(ns, "511", "512", "1023", "1024", "1025", "4096", "65536")
	for i := 0; i < len(u0); i += 7 {
		for _, n := range ns {
			for _, f := range []string{"%" + n + "v", "%." + n + "v", "%-" + n + "d", "%0" + n + "x", "%" + n + "." + n + "s", "%." + n + "f", "%+" + n + "q", "%#." + n + "x"} {
				jobs = append(jobs, job{f, i})
			}
		}
	}
	lib.Parallel(16, func(emit func(job)) {
		for _, j := range jobs {
			emit(j)
		}
	}, func(j job) {
		runDiff(rep, diffCase{Kind: "fmtdiff", Format: "<" + j.f + ">", Seed: lib.Seed(), Idx: []int{j.i}, Route: 0})
	})
	rep.Extra["grid_cases"] = len(jobs)
	rep.Finish()
}

func init() {
	register("fmtdiff-drive", "C04: differential run against the standard fmt over the value universe", fmtdiffDrive)
}
