package lib

import (
	"bufio"
	"encoding/json"
	"math/rand"
	"os"
	"strconv"
	"sync"
)

// Seed returns VERIF_SEED (default 1).
func Seed() int64 {
	if s := os.Getenv("VERIF_SEED"); s != "" {
		if n, err := strconv.ParseInt(s, 10, 64); err == nil {
			return n
		}
	}
	return 1
}

// Tokens from which random payloads are built: whole markers, the redacted
// marker and its cross, every individual byte of the markers, line feeds,
// spaces, '?', ordinary ASCII, multi-byte runes, and invalid bytes.
var PayloadTokens = [][]byte{
	StartM, EndM, RedactedM, []byte("\xC3\x97"), {0xE2}, {0x80}, {0xB9}, {0xBA}, {0xE2, 0x80}, {0xC3}, {0x97},
	{'\n'}, {'\n', '\n'}, {' '}, {'?'}, {'a'}, {'b'}, []byte("xyz"), []byte("é"), []byte("世"), []byte("😀"), {0xFF}, {0xF0, 0x9F}, {'%'}, {'\t'}, {0},
	// the code points around the markers (U+2038, U+203B, U+2019, U+2039 + U+0300) and bytes that differ from a marker's in one position
	[]byte("\u2038"), []byte("\u203b"), {0xB8}, {0xBB}, {'\r'}, {'\r', '\n'}, []byte("\u2019"), {0xE2, 0x81, 0xB9}, {0xE1, 0x80, 0xBA}, []byte("\u00ba"), []byte("\u20ba"),
}

// ValidTokens is the subset that is valid UTF-8.
var ValidTokens = func() [][]byte {
	var out [][]byte
	for _, t := range PayloadTokens {
		if jsonValid(t) {
			out = append(out, t)
		}
	}
	return out
}()

func jsonValid(b []byte) bool {
	for i := 0; i < len(b); {
		if b[i] < 0x80 {
			i++
			continue
		}
		r, s := decode(b[i:])
		if r == 0xFFFD && s == 1 {
			return false
		}
		i += s
	}
	return true
}

// RandBytes concatenates up to maxTok random tokens.
func RandBytes(r *rand.Rand, toks [][]byte, maxTok int) []byte {
	n := r.Intn(maxTok + 1)
	var out []byte
	for i := 0; i < n; i++ {
		out = append(out, toks[r.Intn(len(toks))]...)
	}
	return out
}

// TraceWriter writes NDJSON events for TLC trace validation, up to a limit.
type TraceWriter struct {
	mu    sync.Mutex
	f     *os.File
	w     *bufio.Writer
	N     int
	Limit int
}

func NewTraceWriter(path string, limit int) *TraceWriter {
	if path == "" {
		return nil
	}
	f, err := os.Create(path)
	if err != nil {
		panic(err)
	}
	return &TraceWriter{f: f, w: bufio.NewWriterSize(f, 1<<20), Limit: limit}
}

func (t *TraceWriter) Full() bool {
	if t == nil {
		return true
	}
	t.mu.Lock()
	defer t.mu.Unlock()
	return t.N >= t.Limit
}

func (t *TraceWriter) Emit(ev interface{}) {
	if t == nil {
		return
	}
	b, err := json.Marshal(ev)
	if err != nil {
		panic(err)
	}
	t.mu.Lock()
	defer t.mu.Unlock()
	if t.N >= t.Limit {
		return
	}
	t.N++
	t.w.Write(b)
	t.w.WriteByte('\n')
}

func (t *TraceWriter) Close() int {
	if t == nil {
		return 0
	}
	t.w.Flush()
	t.f.Close()
	return t.N
}
