package main

import (
	"bytes"
	"encoding/json"
	"flag"
	"fmt"
	"os"
	"reflect"
	"runtime"
	"strconv"
	"strings"

	"github.com/cockroachdb/redact"
	"github.com/cockroachdb/redact/verifharness/lib"
)

// fItem is one action of doPrintf as predicted by Format!ParseFormat.
type fItem struct {
	T string `json:"t"`
	B lib.B  `json:"b"`
	A int    `json:"a"`
	V int    `json:"v"`
	M int    `json:"m"` // sharp 1 zero 2 plus 4 minus 8 space 16 plusV 32 sharpV 64
	W int    `json:"w"` // -1 absent
	P int    `json:"p"`
}

type formatLine struct {
	F     lib.B   `json:"f"`
	Cfg   int     `json:"cfg"`
	Items []fItem `json:"items"`
}

// rec is the recording operand: a Formatter that writes exactly what the
// printer told it through fmt.State (verb, flags, width and precision only
// when ok).  Run under fmt and under redact it shows which operand each
// directive consumed and with which flags.
type rec struct{ id int }

func (r rec) Format(s fmt.State, verb rune) {
	var sb strings.Builder
	sb.WriteString("<")
	sb.WriteString(strconv.Itoa(r.id))
	sb.WriteString(":")
	sb.WriteRune(verb)
	sb.WriteString(":")
	for _, c := range "+-# 0" {
		if s.Flag(int(c)) {
			sb.WriteRune(c)
		}
	}
	sb.WriteString(":")
	if w, ok := s.Width(); ok {
		sb.WriteString(strconv.Itoa(w))
	}
	sb.WriteString(":")
	if p, ok := s.Precision(); ok {
		sb.WriteString(strconv.Itoa(p))
	}
	sb.WriteString(">")
	s.Write([]byte(sb.String()))
}

// the operand configurations of MCFormat!Cfgs (1-based there)
func formatArgs(cfg int) []interface{} {
	R := func(i int) interface{} { return rec{i} }
	switch cfg {
	case 1:
		return nil
	case 2:
		return []interface{}{R(0)}
	case 3:
		return []interface{}{2, R(1)}
	case 4:
		return []interface{}{R(0), -3, R(2)}
	case 5:
		return []interface{}{1, 2, R(2)}
	case 6:
		return []interface{}{R(0), R(1), R(2)}
	case 7:
		return []interface{}{2000000, R(1)}
	}
	panic("bad cfg")
}

func flagString(m int) string {
	var sb strings.Builder
	if m&(4|32) != 0 {
		sb.WriteByte('+')
	}
	if m&8 != 0 {
		sb.WriteByte('-')
	}
	if m&(1|64) != 0 {
		sb.WriteByte('#')
	}
	if m&16 != 0 {
		sb.WriteByte(' ')
	}
	if m&2 != 0 {
		sb.WriteByte('0')
	}
	return sb.String()
}

// renderItems computes the text doPrintf must produce for the item list,
// taking the rendering of integer operands from the standard fmt (leaf
// oracle) and the rendering of recording operands from their definition.
func renderItems(items []fItem, args []interface{}) string {
	var sb strings.Builder
	one := func(a interface{}, it fItem) {
		switch v := a.(type) {
		case rec:
			sb.WriteString("<" + strconv.Itoa(v.id) + ":" + string(rune(it.V)) + ":" + flagString(it.M) + ":")
			if it.W >= 0 {
				sb.WriteString(strconv.Itoa(it.W))
			}
			sb.WriteString(":")
			if it.P >= 0 {
				sb.WriteString(strconv.Itoa(it.P))
			}
			sb.WriteString(">")
		default:
			d := "%" + flagString(it.M)
			if it.W >= 0 {
				d += strconv.Itoa(it.W)
			}
			if it.P >= 0 {
				d += "." + strconv.Itoa(it.P)
			}
			if v := rune(it.V); (v >= 'a' && v <= 'z') || (v >= 'A' && v <= 'Z') || v >= 0x80 {
				sb.WriteString(fmt.Sprintf(d+string(v), a))
			} else {
				// a verb that cannot be written in a format string without being read as a
				// flag, digit or punctuation: the bad-verb report, whose inner value is
				// printed with the directive's flags still in force (fmt.badVerb)
				sb.WriteString("%!" + string(v) + "(" + reflect.TypeOf(a).String() + "=" + fmt.Sprintf(d+"d", a) + ")")
			}
		}
	}
	for _, it := range items {
		switch it.T {
		case "Lit":
			sb.Write(it.B)
		case "Pct":
			sb.WriteByte('%')
		case "Arg":
			one(args[it.A], it)
		case "BadWidth":
			sb.WriteString("%!(BADWIDTH)")
		case "BadPrec":
			sb.WriteString("%!(BADPREC)")
		case "NoVerb":
			sb.WriteString("%!(NOVERB)")
		case "BadIdx":
			sb.WriteString("%!" + string(rune(it.V)) + "(BADINDEX)")
		case "Missing":
			sb.WriteString("%!" + string(rune(it.V)) + "(MISSING)")
		case "Extra":
			sb.WriteString("%!(EXTRA ")
			for i, a := range args[it.A:] {
				if i > 0 {
					sb.WriteString(", ")
				}
				sb.WriteString(reflect.TypeOf(a).String() + "=")
				one(a, fItem{V: 'v', W: -1, P: -1})
			}
			sb.WriteString(")")
		}
	}
	return sb.String()
}

// zeroMinus reports whether some directive carries both '0' and '-' (the
// combination whose fmt semantics changed across Go releases; C04 excludes it).
func zeroMinus(f []byte, items []fItem, args []interface{}) bool {
	// conservative: any '0' flag byte after '%' together with a '-' or a negative star operand
	hasNegStar := false
	for _, a := range args {
		if n, ok := a.(int); ok && n < 0 {
			hasNegStar = true
		}
	}
	return bytes.Contains(f, []byte("0")) && (bytes.Contains(f, []byte("-")) || (hasNegStar && bytes.Contains(f, []byte("*"))))
}

type formatCase struct {
	Kind string `json:"kind"`
	F    lib.B  `json:"f"`
	Cfg  int    `json:"cfg"`
}

func safeSprintf(fn func() string) (out string, panicked bool) {
	defer func() {
		if r := recover(); r != nil {
			panicked = true
			out = fmt.Sprint("PANIC:", r)
		}
	}()
	return fn(), false
}

func judgeFormat(rep *lib.Report, prop string, f []byte, cfg int, items []fItem) {
	args := formatArgs(cfg)
	kase := formatCase{"format", f, cfg}
	rep.AddEval(1)
	real, rp := safeSprintf(func() string { return string(redact.Sprintf(string(f), args...)) })
	std, sp := safeSprintf(func() string { return fmt.Sprintf(string(f), args...) })
	stripped := redact.RedactableString(real).StripMarkers()
	excluded := zeroMinus(f, items, args)
	if rp != sp && !excluded {
		rep.Violate("format:panic-mismatch", fmt.Sprintf("redact panicked=%v (%s), fmt panicked=%v (%s)", rp, real, sp, std), kase)
		return
	}
	if !rp && !lib.WellFormed([]byte(real)) {
		rep.Violate("format:illformed", fmt.Sprintf("Sprintf(%q) = %q", f, real), kase)
	}
	// the statement of C04: stripped output = fmt's output (markers in data -> '?'; none here)
	if !excluded && !rp && stripped != string(lib.EscapeAll([]byte(std))) {
		rep.Violate("format:fmt-mismatch", fmt.Sprintf("Sprintf(%q, cfg %d): redact %q, fmt %q", f, cfg, stripped, std), kase)
	}
	if items != nil && !rp {
		exp := renderItems(items, args)
		if stripped != exp {
			rep.DriftAt(fmt.Sprintf("format %q cfg %d: redact prints %q, the model's items render as %q", f, cfg, stripped, exp))
		}
		if !excluded && std != exp {
			rep.DriftAt(fmt.Sprintf("format %q cfg %d: fmt prints %q, the model's items render as %q", f, cfg, std, exp))
		}
	}
	if bytes.IndexByte(f, '%') >= 0 {
		rep.Nontrivial(fmt.Sprintf("%d|%s", cfg, stripped))
	}
}

func formatReplay(args []string) {
	fs := flag.NewFlagSet("format-replay", flag.ExitOnError)
	prop := fs.String("prop", "C04", "")
	fs.Parse(args)
	rep := lib.NewReport(*prop, "format-replay")
	lib.Parallel(runtime.NumCPU(), func(emit func([]byte)) {
		_ = lib.TLCLines(os.Stdin, func(raw []byte) { emit(append([]byte(nil), raw...)) })
	}, func(raw []byte) {
		var ln formatLine
		if err := json.Unmarshal(raw, &ln); err != nil {
			return
		}
		rep.AddReplayed(1)
		if ln.Items == nil {
			ln.Items = []fItem{}
		}
		judgeFormat(rep, *prop, ln.F, ln.Cfg, ln.Items)
		if len(ln.Items) >= 3 && len(ln.F) >= 5 {
			rep.Sample(map[string]interface{}{"format": string(ln.F), "operands": fmt.Sprint(formatArgs(ln.Cfg)...),
				"redact": string(redact.Sprintf(string(ln.F), formatArgs(ln.Cfg)...)), "model_items": len(ln.Items)})
		}
	})
	rep.Finish()
}

func init() {
	register("format-replay", "C04/C14: replay MCFormat formats on redact.Sprintf and fmt.Sprintf with recording operands", formatReplay)
}
