package main

import (
	"bytes"
	"encoding/json"
	"errors"
	"flag"
	"fmt"
	"os"
	"regexp"
	"runtime"
	"strings"
	"sync"

	"github.com/cockroachdb/redact"
	"github.com/cockroachdb/redact/internal/rfmt"
	"github.com/cockroachdb/redact/verifharness/lib"
)

// pCase is a printing case of MCPrinter (entry point, format, operand terms).
type pCase struct {
	E   string      `json:"e"`
	F   []int       `json:"f"`
	Ts  []*lib.Term `json:"ts"`
	Scr []lib.SOp   `json:"scr"`
}

type printerLine struct {
	C     pCase         `json:"c"`
	Exc   bool          `json:"exc"`
	Out   []int         `json:"out"`
	Rt    []lib.RtEntry `json:"rt"`
	Calls []lib.CallRec `json:"calls"`
	Werr  int           `json:"werr"`
}

type realResult struct {
	Out      []byte
	Panicked bool
	PanicVal string
	Err      error
	Calls    []lib.CallRec
	Args     []interface{}
}

// runCase executes the case on the real library with the given dictionary.
func runCase(c *lib.Ctx, k pCase) (res realResult) {
	c.Index(lib.HookTerms())
	c.Index(k.Ts)
	for _, op := range k.Scr {
		c.Index(op.Ts)
	}
	args := c.Values(k.Ts)
	res.Args = args
	defer func() {
		if r := recover(); r != nil {
			res.Panicked = true
			res.PanicVal = fmt.Sprint(r)
		}
		res.Calls = c.Calls
	}()
	switch k.E {
	case "Sprintf":
		res.Out = []byte(redact.Sprintf(string(c.Subst(k.F)), args...))
	case "Sprint":
		res.Out = []byte(redact.Sprint(args...))
	case "Sprintln":
		res.Out = []byte(rfmt.Sprintln(args...))
	case "Errorf":
		s, err := redact.HelperForErrorf(string(c.Subst(k.F)), args...)
		res.Out, res.Err = []byte(s), err
	case "Sprintfn":
		res.Out = []byte(redact.Sprintfn(func(w redact.SafePrinter) { c.RunScript(k.Scr, w, nil, 'v') }))
	default:
		panic("unknown entry " + k.E)
	}
	return
}

func printerReplay(args []string) {
	fs := flag.NewFlagSet("printer-replay", flag.ExitOnError)
	prop := fs.String("prop", "ALL", "")
	hook := fs.String("hook", "none", "error hook installed for the whole run")
	slice := fs.String("slice", "", "the slice of the specification the cases come from")
	fs.Parse(args)
	currentSlice = *slice
	installHook(*hook)
	rep := lib.NewReport(*prop, "printer-replay")
	defer installPoolMonitor(rep)()
	if *prop == "C08" || *prop == "C11" {
		joinEdgeCases(rep)
	}
	if *prop == "C17" && *hook == "plain" {
		hookSurplusProbes(rep)
	}
	mon := installModeMonitor(rep, 0) // scripted user programs (call-backs, nested printers, panics) under the mode monitor
	lib.Parallel(runtime.NumCPU(), func(emit func([]byte)) {
		_ = lib.TLCLines(os.Stdin, func(raw []byte) { emit(append([]byte(nil), raw...)) })
	}, func(raw []byte) {
		var ln printerLine
		if err := json.Unmarshal(raw, &ln); err != nil || ln.C.E == "" {
			return
		}
		rep.AddReplayed(1)
		replayPrinterLine(rep, *prop, &ln, raw)
		if *prop == "C12" {
			remember(raw)
		}
	})
	if *prop == "C12" {
		historyIndependence(rep)
	}
	mon.stop("")
	rep.Finish()
}

// hookSurplusProbes (C17, hook kind "plain"): error values among the operands a format has no directive for are printed
// in the %!(EXTRA type=value) report through method dispatch like every other operand: with a hook installed each of
// them -- at top level, in a slice, in an exported interface field -- is rendered by the hook ("H<v:...>") and by
// nothing else; an error under Unsafe() bypasses the hook and is enveloped.
type surplusErr struct{ s string }

func (e *surplusErr) Error() string { return "E(" + e.s + ")" }

func hookSurplusProbes(rep *lib.Report) {
	e1, e2 := &surplusErr{"zq1"}, &surplusErr{"zq2"}
	type probe struct {
		f    string
		args []interface{}
		n    int
	}
	probes := []probe{
		{"lit", []interface{}{e1}, 1},
		{"%d", []interface{}{1, e1, e2}, 2},
		{"%d|", []interface{}{1, []error{e1}}, 1},
		{"", []interface{}{struct{ E error }{e1}}, 1},
		{"%v", []interface{}{e1, e2}, 2},
		{"%s", []interface{}{e1, "x", []interface{}{e2, 3}}, 2},
		{"%d", []interface{}{1, map[string]error{"k": e2}}, 1},
		{"%d", []interface{}{1, e1, redact.Unsafe(e2)}, 1}, // (under Unsafe() the hook is bypassed and the plain text enveloped)
	}
	for _, pr := range probes {
		kase := map[string]interface{}{"kind": "hook-surplus", "format": pr.f, "operands": fmt.Sprintf("%T", pr.args)}
		rep.Guard("hook:surplus-panic", kase, func() {
			var sb redact.StringBuilder
			sb.Printf(pr.f, pr.args...)
			var w bytes.Buffer
			_, _ = redact.Fprintf(&w, pr.f, pr.args...)
			for i, out := range []string{string(redact.Sprintf(pr.f, pr.args...)), string(sb.RedactableString()), w.String()} {
				rep.AddEval(1)
				// (what the hook writes for the error is unsafe: with the envelopes deleted its rendering is "H<v:>", "H<s:>" under %s)
				vis := string(lib.DeleteEnvelopes([]byte(out)))
				if n := strings.Count(vis, "H<v:>") + strings.Count(vis, "H<s:>"); n != pr.n {
					rep.Violate("hook:surplus-operand", fmt.Sprintf("format %q, operands %v (route %d): %d error values are printed through method dispatch outside of Unsafe(), the hook rendered %d: %q", pr.f, pr.args, i, pr.n, n, out), kase)
					return
				}
				if strings.Contains(vis, "zq") {
					rep.Violate("hook:surplus-operand", fmt.Sprintf("format %q (route %d): the text of an error value is in the clear: %q", pr.f, i, out), kase)
					return
				}
			}
		})
	}
	rep.Count("hook_surplus_probes", len(probes))
}

// C12 on the printer cases: "the result is unaffected by any earlier calls in the process".  Every case of the slice has
// been run once (in whatever order the workers took them); all of them are run again, in the reverse order of arrival and
// on one goroutine, and then a third time: each case must print the same text every time (addresses excepted).
var (
	rememberMu sync.Mutex
	remembered [][]byte
)

func remember(raw []byte) {
	rememberMu.Lock()
	remembered = append(remembered, append([]byte(nil), raw...))
	rememberMu.Unlock()
}

func historyIndependence(rep *lib.Report) {
	run := func(raw []byte) (string, bool) {
		var ln printerLine
		if json.Unmarshal(raw, &ln) != nil || printsAddresses(&ln) {
			return "", false
		}
		u8 := false
		walkTerms(ln.C.Ts, func(t *lib.Term) {
			for _, cp := range t.Caps {
				if cp == "U8" {
					u8 = true
				}
			}
		})
		if u8 {
			return "", false
		}
		c := lib.NewCtxLike(nil, 900000) // the same object handles every time
		defer c.Release()
		r := runCase(c, ln.C)
		if r.Panicked {
			return "PANIC " + r.PanicVal, true
		}
		return string(r.Out), true
	}
	first := map[int]string{}
	for i := len(remembered) - 1; i >= 0; i-- {
		if out, ok := run(remembered[i]); ok {
			first[i] = out
		}
	}
	for i := range remembered {
		out, ok := run(remembered[i])
		if !ok {
			continue
		}
		rep.AddEval(1)
		if out != first[i] {
			var ln printerLine
			_ = json.Unmarshal(remembered[i], &ln)
			c := lib.NewCtx(nil)
			rep.Violate("printer:history-dependent", fmt.Sprintf("%s printed %q in one pass over the cases and %q in another: the result depends on earlier calls in the process", caseString(c, ln.C), first[i], out), json.RawMessage(remembered[i]))
			c.Release()
		}
	}
	rep.Count("cases_rerun_for_history_independence", len(first))
}

func replayPrinterLine(rep *lib.Report, prop string, ln *printerLine, raw []byte) {
	c := lib.NewCtx(nil)
	defer c.Release()
	res := runCase(c, ln.C)
	rep.AddEval(1)
	desc := func() string { return caseString(c, ln.C) }
	if res.Panicked != ln.Exc {
		rep.DriftAt(fmt.Sprintf("%s: real panicked=%v (%s), model says %v", desc(), res.Panicked, res.PanicVal, ln.Exc))
		judgePrinter(rep, prop, c, ln, &res, raw)
		return
	}
	if res.Panicked {
		return
	}
	// the comparison with the model's prediction needs the real values to be what the terms say they are (a change to
	// the library can make them something else, e.g. a wrapper constructor that returns its operand): if the prediction
	// cannot be rendered that is drift, and the property's own predicates are still evaluated on the real result
	judged := false
	defer func() {
		if r := recover(); r != nil {
			rep.DriftAt(fmt.Sprintf("%s: the model's prediction could not be rendered against the real values (%v)", desc(), r))
			if !judged {
				rep.Guard("printer:panic", json.RawMessage(raw), func() { judgePrinter(rep, prop, c, ln, &res, raw) })
			}
		}
	}()
	exp, hot := c.Expect(ln.Out, ln.Rt)
	if hot {
		rep.Hot()
	} else if !bytes.Equal(res.Out, exp) {
		rep.DriftAt(fmt.Sprintf("%s: real %q, model %q", desc(), res.Out, exp))
	}
	if !usesStdFmt(ln) && !callsEqual(res.Calls, ln.Calls) {
		rep.DriftAt(fmt.Sprintf("%s: user methods invoked %v, model %v", desc(), res.Calls, ln.Calls))
	}
	if ln.C.E == "Errorf" {
		var want interface{}
		if ln.Werr != 0 {
			want = c.Value(findTerm(ln.C.Ts, ln.Werr))
		}
		if (res.Err == nil) != (want == nil) || (res.Err != nil && interface{}(res.Err) != want) {
			rep.DriftAt(fmt.Sprintf("%s: returned error %v, model term %d", desc(), res.Err, ln.Werr))
		}
	}
	judged = true
	judgePrinter(rep, prop, c, ln, &res, raw)
	rep.Nontrivial(string(exp))
	smp := map[string]interface{}{"case": desc(), "real_output": string(res.Out), "model_output": string(exp)}
	if len(ln.Rt) > 1 {
		rep.Sample(smp)
	} else {
		rep.SampleIfFew(smp)
	}
}

// usesStdFmt: some part of the case is rendered by the standard fmt package (the
// Format/SafeMessage methods of the Safe/Unsafe wrappers); the methods fmt invokes
// there are outside the specification's call log.
func usesStdFmt(ln *printerLine) bool {
	var has func(ts []*lib.Term) bool
	has = func(ts []*lib.Term) bool {
		for _, t := range ts {
			if t == nil {
				continue
			}
			if t.K == "safe" || t.K == "unsafe" {
				return true
			}
			if has(t.Xs) || has(t.Pan) {
				return true
			}
			for _, op := range t.Scr {
				if has(op.Ts) {
					return true
				}
			}
			for _, op := range t.FScr {
				if has(op.Ts) {
					return true
				}
			}
		}
		return false
	}
	for _, op := range ln.C.Scr {
		if has(op.Ts) {
			return true
		}
	}
	return has(ln.C.Ts)
}

func findTerm(ts []*lib.Term, id int) *lib.Term {
	for _, t := range ts {
		if t == nil {
			continue
		}
		if t.ID == id {
			return t
		}
		if x := findTerm(t.Xs, id); x != nil {
			return x
		}
	}
	return nil
}

func callsEqual(a, b []lib.CallRec) bool {
	if len(a) != len(b) {
		return false
	}
	for i := range a {
		// the verb is only recorded for SafeFormat / Format / Hook by both sides
		if a[i].M != b[i].M || a[i].ID != b[i].ID {
			return false
		}
		if (a[i].M == "SafeFormat" || a[i].M == "Format" || a[i].M == "Hook") && a[i].V != b[i].V {
			return false
		}
	}
	return true
}

func caseString(c *lib.Ctx, k pCase) string {
	switch k.E {
	case "Sprintf", "Errorf":
		return fmt.Sprintf("%s(%q, %s)", k.E, c.Subst(k.F), termsString(k.Ts))
	case "Sprint", "Sprintln":
		return fmt.Sprintf("%s(%s)", k.E, termsString(k.Ts))
	}
	return k.E
}

func termsString(ts []*lib.Term) string {
	var sb bytes.Buffer
	for i, t := range ts {
		if i > 0 {
			sb.WriteString(", ")
		}
		sb.WriteString(termString(t))
	}
	return sb.String()
}

func termString(t *lib.Term) string {
	switch t.K {
	case "nil":
		return "nil"
	case "int", "uint":
		return fmt.Sprintf("%s(%d)", t.K, t.N)
	case "string", "rstring", "rbytes", "bytes":
		return fmt.Sprintf("%s%v", t.K, t.B)
	case "safe":
		return "Safe(" + termString(t.Xs[0]) + ")"
	case "unsafe":
		return "Unsafe(" + termString(t.Xs[0]) + ")"
	case "obj":
		s := fmt.Sprintf("obj#%d%v", t.ID, t.Caps)
		if len(t.Pan) > 0 {
			s += "!panics"
		}
		if len(t.Scr) > 0 {
			s += "{"
			for i, op := range t.Scr {
				if i > 0 {
					s += ";"
				}
				s += op.O
				if len(op.Ts) > 0 {
					s += "(" + termsString(op.Ts) + ")"
				}
			}
			s += "}"
		}
		if len(t.FScr) > 0 {
			s += "F{"
			for i, op := range t.FScr {
				if i > 0 {
					s += ";"
				}
				s += op.O
				if len(op.Ts) > 0 {
					s += "(" + termsString(op.Ts) + ")"
				}
			}
			s += "}"
		}
		return s
	case "slice", "map", "ptrto":
		return t.K + "[" + termsString(t.Xs) + "]"
	case "struct":
		return fmt.Sprintf("struct%v{%s}", t.Ro, termsString(t.Xs))
	}
	return t.K
}

func logHook(err error, verb rune) {
	if c, t := lib.SpecOfValue(err); c != nil {
		c.LogCall("Hook", t, verb)
	}
}

// installHook registers the error hook corresponding to Printer!HookKind.
func installHook(kind string) {
	// printers that were used (and pooled) before the registration must honour it too
	var wg sync.WaitGroup
	for i := 0; i < 2*runtime.NumCPU(); i++ {
		wg.Add(1)
		go func() {
			defer wg.Done()
			for j := 0; j < 8; j++ {
				_ = redact.Sprintf("%v %d %s", errors.New("warm-up"), j, redact.Safe("x"))
			}
		}()
	}
	wg.Wait()
	// ... and so must error TYPES that were printed before it (whatever is remembered per type about "no hook installed")
	func() {
		defer func() { recover() }()
		c := lib.NewCtx(nil)
		defer c.Release()
		for i, caps := range [][]string{{"ER"}, {"ER", "ST"}, {"ER", "FM"}, {"ER", "GS"}, {"ER", "GS", "ST"}, {"ER", "SV"}, {"ER", "REG"}, {"ER", "U8"}} {
			t := &lib.Term{K: "obj", ID: 950 + i, Caps: caps, B: []int{lib.PTok + 950 + i}}
			_ = redact.Sprintf("%v %s", c.Value(t), []interface{}{c.Value(t)})
		}
	}()
	currentHook = kind
	switch kind {
	case "none":
		redact.RegisterRedactErrorFn(nil)
	case "plain":
		redact.RegisterRedactErrorFn(func(err error, p redact.SafePrinter, verb rune) {
			logHook(err, verb)
			p.SafeString("H<")
			p.SafeRune(redact.SafeRune(verb))
			p.SafeString(":")
			p.UnsafeString(err.Error())
			p.SafeString(">")
		})
	case "print":
		redact.RegisterRedactErrorFn(func(err error, p redact.SafePrinter, verb rune) {
			logHook(err, verb)
			p.SafeString("H<")
			p.Print(lib.PlainDict(900), redact.Safe(7))
			p.SafeString(">")
		})
	case "panic":
		redact.RegisterRedactErrorFn(func(err error, p redact.SafePrinter, verb rune) {
			logHook(err, verb)
			p.SafeString("H<")
			panic(lib.PlainDict(903))
		})
	case "silent":
		// a hook that chooses to print nothing for an error (e.g. hides a sentinel): the operand is rendered solely by
		// the hook, so nothing of it appears
		redact.RegisterRedactErrorFn(func(err error, p redact.SafePrinter, verb rune) {
			logHook(err, verb)
		})
	default:
		panic("unknown hook kind " + kind)
	}
}

// hotDicts give payload texts that are everything the plain dictionary is not:
// markers, the redacted marker, line feeds in every position, partial UTF-8.
var hotTexts = []string{"\u2039x", "a\nb", "\u203a", "\n", "x\u2039y\u203az", "q\xe2\x80", "\u2039\u00d7\u203a", "\n\nz", "w\n", "\xe2", "\x80\xb9", " "}

func hotDict(k int) lib.Dict {
	return func(id int) string { return hotTexts[(id*7+k)%len(hotTexts)] }
}

// secret dictionaries for C02: same emptiness, same line-feed skeleton, disjoint sentinel alphabets
func secretDict(which int) lib.Dict { return secretDictV(which, 0) }

// secretDictV: variant 1 puts what an attacker would put into a secret in front of it -- a stray marker lead byte
// directly before an end marker, a start marker, a truncated marker -- the same in both instantiations, so that the
// two still differ only in the sentinel text (and whatever survives redaction is still named by its sentinel)
func secretDictV(which, variant int) lib.Dict {
	return func(id int) string {
		nl := ""
		if id%3 == 0 {
			nl = "\n"
		}
		pre := ""
		if variant == 1 {
			pre = []string{"\xe2\u203a ", "\xe2\x80\u203a", "\u2039\u203a\u203a", "\u203a\xe2\x80", "x\xe2"}[id%5]
		}
		if which == 0 {
			return fmt.Sprintf("%sSECa%dxx%sAA", pre, id, nl)
		}
		return fmt.Sprintf("%sSEKRb%dy%sBBB", pre, id, nl)
	}
}

// redactableOperandsOK: every pre-redacted operand (at any depth, also inside scripts and panic payloads) is a
// well-formed, line-safe redactable under the context's dictionary.
func redactableOperandsOK(c *lib.Ctx, ts []*lib.Term) bool {
	ok := true
	walkTerms(ts, func(t *lib.Term) {
		if t.K == "rstring" || t.K == "rbytes" {
			b := c.Subst(t.B)
			if !lib.WellFormed(b) || !lib.LineSafe(b) {
				ok = false
			}
		}
	})
	return ok
}

// judgePrinter: the properties' own predicates on real results of one case.
func judgePrinter(rep *lib.Report, prop string, c *lib.Ctx, ln *printerLine, res *realResult, raw []byte) {
	is := func(p string) bool { return prop == p || prop == "ALL" }
	kase := json.RawMessage(raw)
	desc := func() string { return caseString(c, ln.C) }
	if is("C01") && !lib.WellFormed(res.Out) {
		rep.Violate("printer:illformed", fmt.Sprintf("%s: output %q", desc(), res.Out), kase)
	}
	if is("C03") && !lib.LineSafe(res.Out) { // (each line a redactable of its own: an ill-formed whole has an ill-formed line)
		rep.Violate("printer:linespan", fmt.Sprintf("%s: output %q", desc(), res.Out), kase)
	}
	if is("C01") || is("C03") || is("C11") {
		// the same case with hot payloads: markers, line feeds, partial UTF-8 in every payload
		for k := 0; k < 3; k++ {
			hc := lib.NewCtx(hotDict(k + int(lib.Seed())))
			if !redactableOperandsOK(hc, ln.C.Ts) {
				// a RedactableString / RedactableBytes operand whose content is made of payload tokens would be
				// ill-formed under this dictionary: that breaks the operand's own precondition, not the library
				hc.Release()
				continue
			}
			hr := runCase(hc, ln.C)
			hc.Release()
			rep.AddEval(1)
			if hr.Panicked != ln.Exc {
				if is("C11") {
					rep.Violate("printer:panic", fmt.Sprintf("%s with hot payloads: panicked=%v (%s)", desc(), hr.Panicked, hr.PanicVal), kase)
				}
				continue
			}
			if hr.Panicked {
				continue
			}
			if (is("C01") || is("C11")) && !lib.WellFormed(hr.Out) {
				rep.Violate("printer:illformed", fmt.Sprintf("%s with hot payloads: output %q", desc(), hr.Out), kase)
			}
			if is("C03") && !lib.WellFormed(hr.Out) && !lib.LineSafe(hr.Out) {
				rep.Violate("printer:linespan", fmt.Sprintf("%s with hot payloads: output %q", desc(), hr.Out), kase)
			}
			if is("C03") && lib.WellFormed(hr.Out) {
				red := func(b []byte) []byte { return []byte(redact.RedactableBytes(b).Redact()) }
				str := func(b []byte) []byte { return redact.RedactableBytes(b).StripMarkers() }
				if !lib.LineSafe(hr.Out) {
					rep.Violate("printer:linespan", fmt.Sprintf("%s with hot payloads: output %q", desc(), hr.Out), kase)
				} else if !lib.PerLineOK(hr.Out, red, str) {
					rep.Violate("printer:perline", fmt.Sprintf("%s with hot payloads: output %q", desc(), hr.Out), kase)
				}
			}
		}
	}
	if is("C08") || is("C12") || is("C13") || is("C01") {
		// the call reads its operands: a byte-slice operand holds afterwards what it held before, and the result
		// shares no memory with it (printing it again gives the same text)
		walkTerms(ln.C.Ts, func(t *lib.Term) {
			if t.K != "rbytes" {
				return
			}
			if v, ok := c.Value(t).(redact.RedactableBytes); ok && !bytes.Equal(v, c.Subst(t.B)) {
				rep.Violate("printer:operand-modified", fmt.Sprintf("%s: after the call the RedactableBytes operand #%d holds %q, it was given as %q", desc(), t.ID, []byte(v), c.Subst(t.B)), kase)
			}
		})
	}
	if is("C02") {
		judgeC02(rep, c, ln, kase)
	}
	if is("C05") && !lib.HasKind(ln.C.Ts, "unsafe") && !hasScripts(ln.C.Ts) && (currentSlice != "rnd" || tokenPure(ln.C.Ts)) {
		exp, hot := c.Expect(ln.Out, ln.Rt)
		_ = exp
		if !hot {
			want := c.ExpectVisible(ln.Out, ln.Rt, ln.C.Ts)
			if got := lib.DeleteEnvelopes(res.Out); !bytes.Equal(got, want) {
				rep.Violate("printer:visible", fmt.Sprintf("%s: with envelopes deleted the output is %q, the declared-safe text is %q (output %q)", desc(), got, want, res.Out), kase)
			}
		}
	}
	if is("C05") || is("C16") {
		judgeSafeNumberTwin(rep, c, ln, res, kase)
	}
	if is("C06") {
		judgeC06Nested(rep, c, ln, res, kase)
		judgeC06(rep, c, ln, res, kase)
		if currentSlice == "rnd" {
			judgeC06Rnd(rep, c, ln, res, kase)
		}
	}
	if is("C11") {
		judgeC11(rep, c, ln, res, kase)
	}
	if is("C08") {
		judgeC08(rep, c, ln, res, kase)
		// joining what the case holds (Join / JoinTo are not entry points of the printer model)
		var parts [][]byte
		for _, t := range ln.C.Ts {
			if t.K == "rstring" {
				parts = append(parts, c.Subst(t.B))
			}
		}
		if len(parts) > 0 {
			judgeJoin(rep, append(parts, res.Out), []byte(", "))
			judgeJoin(rep, append([][]byte{res.Out}, parts...), []byte("\u2039,\u203a"))
		}
	}
	if is("C16") {
		judgeC16(rep, c, ln, res, kase)
	}
	if is("C15") {
		judgeC15(rep, c, ln, res, currentHook, kase)
	}
	if is("C17") {
		judgeC17(rep, c, ln, res, currentHook, kase)
	}
}

var currentHook = "none"

// currentSlice: the slice of the specification the replayed cases come from ("" when unknown, e.g. a replay file)
var currentSlice = ""

// tokenPure: every payload of the case is made of opaque tokens (the C05 equation speaks about renderings; literal
// bytes in a payload have no provenance in the model's output)
func tokenPure(ts []*lib.Term) bool {
	pure := true
	walkTerms(ts, func(t *lib.Term) {
		for _, x := range t.B {
			if x < lib.PTok {
				pure = false
			}
		}
	})
	return pure
}

func hasScripts(ts []*lib.Term) bool {
	for _, t := range ts {
		if len(t.Scr) > 0 || len(t.FScr) > 0 || hasScripts(t.Xs) || hasScripts(t.Pan) {
			return true
		}
	}
	return false
}

// judgeC02: two instantiations of the secret payloads (public ones shared); the redacted
// results must be identical and hold no sentinel of a secret.
func judgeC02(rep *lib.Report, c *lib.Ctx, ln *printerLine, kase json.RawMessage) {
	if printsAddresses(ln) {
		return // pointer values are public but differ from one allocation to the next
	}
	u8 := false
	walkTerms(ln.C.Ts, func(t *lib.Term) {
		for _, cp := range t.Caps {
			if cp == "U8" {
				u8 = true
			}
		}
	})
	if u8 {
		return // the value of a uint8-kinded model object is a slot number handed out per run: not comparable across two runs
	}
	pub := lib.Publicity(ln.C.Ts)
	lib.MarkStarOperandsPublic(pub, c.Subst(ln.C.F), ln.C.Ts)
	for variant := 0; variant < 2; variant++ {
		if variant == 1 && lib.HasKind(ln.C.Ts, "rstring", "rbytes") {
			continue // (a redactable operand built around such a payload would not be a redactable)
		}
		var outs [2][]byte
		base := 0
		for w := 0; w < 2; w++ {
			sec := secretDictV(w, variant)
			d := func(id int) string {
				if pub[id] {
					return lib.PlainDict(id)
				}
				return sec(id)
			}
			var sc *lib.Ctx
			if w == 0 {
				sc = lib.NewCtx(d)
				base = sc.HandleBase
			} else {
				sc = lib.NewCtxLike(d, base)
			}
			sc.SecretInts = w + 1
			sc.Public = pub
			r := runCase(sc, ln.C)
			sc.Release()
			rep.AddEval(1)
			if r.Panicked {
				return
			}
			outs[w] = []byte(redact.RedactableBytes(r.Out).Redact())
		}
		if !bytes.Equal(outs[0], outs[1]) {
			rep.Violate("printer:interference", fmt.Sprintf("%s: redacted outputs differ: %q vs %q", caseString(c, ln.C), outs[0], outs[1]), kase)
		}
		// a sentinel of instantiation w in its own output names the leak; the same digits in the OTHER instantiation's
		// output are public text that happens to look alike (object handles are running numbers), not a leak
		sentinels := [2][]string{{"SECa", "7771", "1e5b", "1E5B"}, {"SEKRb", "7772", "1e5c", "1E5C"}}
		for w := 0; w < 2; w++ {
			for _, s := range sentinels[w] {
				if bytes.Contains(outs[w], []byte(s)) && !bytes.Contains(outs[1-w], []byte(s)) {
					rep.Violate("printer:leak", fmt.Sprintf("%s: sentinel %q of an unsafe value survives redaction: %q", caseString(c, ln.C), s, outs[w]), kase)
				}
			}
		}
	}
}

// secretsVisible: under the plain dictionary, the text of a secret payload outside envelopes.
func secretsVisible(ts []*lib.Term, out []byte) string {
	vis := lib.DeleteEnvelopes(out)
	for id, public := range lib.Publicity(ts) {
		if !public && bytes.Contains(vis, []byte(lib.PlainDict(id))) {
			return lib.PlainDict(id)
		}
	}
	return ""
}

// judgeC06 (slice wrap: format "a <directive> a" or Sprint, one wrapped operand)
func judgeC06(rep *lib.Report, c *lib.Ctx, ln *printerLine, res *realResult, kase json.RawMessage) {
	if len(ln.C.Ts) != 1 || (ln.C.Ts[0].K != "safe" && ln.C.Ts[0].K != "unsafe") {
		return
	}
	top := ln.C.Ts[0]
	desc := caseString(c, ln.C)
	lits := []byte("a  a")
	if ln.C.E == "Sprint" {
		lits = nil
	} else if f := c.Subst(ln.C.F); !bytes.HasPrefix(f, []byte("a %")) || !bytes.HasSuffix(f, []byte(" a")) || bytes.Count(f, []byte("%")) != 1 {
		return
	}
	// innermost non-wrapper value and whether it is fmt-compatible / free of own classification
	x := top
	for x.K == "safe" || x.K == "unsafe" {
		x = x.Xs[0]
	}
	if top.K == "unsafe" {
		if got := lib.DeleteEnvelopes(res.Out); !lib.WellFormed(res.Out) || !bytes.Equal(got, lits) {
			rep.Violate("printer:unsafe-not-enveloped", fmt.Sprintf("%s: output %q shows %q outside envelopes", desc, res.Out, got), kase)
		}
	}
	if top.K == "safe" && !ownClassification(x) {
		// x: the value under all directly nested wrappers; wrappers met deeper (struct fields, slices,
		// reflect.Value) are overridden by the outermost Safe()
		if lib.HasMarker(res.Out) {
			rep.Violate("printer:safe-enveloped", fmt.Sprintf("%s: output %q has an envelope", desc, res.Out), kase)
		}
	}
	// the characters are those fmt prints for x (fmt-compatible x only; the operand is used as built)
	verb := 0
	if len(ln.C.F) >= 3 {
		verb = ln.C.F[len(ln.C.F)-3]
	}
	if fmtCompatible(top) && ln.C.E == "Sprintf" && verb != 'T' && verb != 'p' && (top.K == "unsafe" || !(top.Xs[0].K == "safe" || top.Xs[0].K == "unsafe" || ownClassification(top.Xs[0]))) {
		std := fmt.Sprintf(string(c.Subst(ln.C.F)), stripWrappers(c, top))
		if got := lib.Strip(res.Out); !bytes.Equal(got, lib.EscapeAll([]byte(std))) {
			rep.Violate("printer:wrapper-chars", fmt.Sprintf("%s: characters %q, fmt prints %q", desc, got, std), kase)
		}
	}
}

// judgeC06Nested: the two envelope clauses for wrappers at ANY depth of an operand (judgeC06 handles the operand that is
// itself a wrapper).  Statement-level: the outermost declaration above a leaf decides -- a payload that stands under
// Unsafe() never shows outside envelopes, a payload under Safe() is never inside one.  (Payloads = the opaque texts of
// strings and of String/Error/SafeMessage results; cases with scripted methods are left to the model comparison.)
func judgeC06Nested(rep *lib.Report, c *lib.Ctx, ln *printerLine, res *realResult, kase json.RawMessage) {
	if res.Panicked || hasScripts(ln.C.Ts) || !lib.WellFormed(res.Out) {
		return
	}
	cm := lib.CtxMap(ln.C.Ts)
	vis := lib.DeleteEnvelopes(res.Out)
	all := lib.Strip(res.Out)
	walkTerms(ln.C.Ts, func(t *lib.Term) {
		if len(t.B) == 0 || len(t.Pan) > 0 || !(t.K == "string" || t.K == "sstr" || t.K == "obj") {
			return
		}
		pure := true
		for _, x := range t.B {
			if x < lib.PTok {
				pure = false
			}
		}
		if !pure {
			return
		}
		txt := c.Subst(t.B)
		switch cm[t.ID] {
		case "unsafe":
			if bytes.Contains(vis, txt) {
				rep.Violate("printer:unsafe-not-enveloped", fmt.Sprintf("%s: %q stands under Unsafe() and shows outside envelopes: %q", caseString(c, ln.C), txt, res.Out), kase)
			}
		case "safe":
			if bytes.Contains(all, txt) && bytes.Count(vis, txt) != bytes.Count(all, txt) {
				rep.Violate("printer:safe-enveloped", fmt.Sprintf("%s: %q stands under Safe() and is inside an envelope: %q", caseString(c, ln.C), txt, res.Out), kase)
			}
		}
	})
}

// judgeC06Rnd: the "characters are those fmt prints for x" clause on the operand lists of the random slice.  Every operand
// is either a plain value (at every depth only values that mean the same to fmt and to redact) or such a value under
// wrappers applied directly to the operand -- any chain under an outermost Unsafe(), a single Safe() -- ; the format has no
// %T / %p.  Then the characters of the result are what fmt prints for the same format and the operands without wrappers.
func judgeC06Rnd(rep *lib.Report, c *lib.Ctx, ln *printerLine, res *realResult, kase json.RawMessage) {
	if res.Panicked || currentHook != "none" || len(ln.C.Ts) == 0 || printsAddresses(ln) || formatHasVerb(ln.C.F, 'T') || formatHasVerb(ln.C.F, 'w') {
		return
	}
	raw, _ := json.Marshal(ln.C)
	var cp pCase
	if json.Unmarshal(raw, &cp) != nil {
		return
	}
	wrapped := false
	for i, t := range cp.Ts {
		x := t
		if t.K == "unsafe" {
			for x.K == "safe" || x.K == "unsafe" {
				x = x.Xs[0]
			}
		} else if t.K == "safe" {
			x = t.Xs[0]
		}
		if x != t {
			wrapped = true
		}
		if !plainDeep([]*lib.Term{x}) {
			return
		}
		if t.K == "safe" && ownClassification(x) {
			return
		}
		cp.Ts[i] = x
	}
	if !wrapped {
		return // (no wrapper: C04's subject)
	}
	if bytes.Contains(res.Out, []byte("%!(EXTRA")) || (ln.C.E == "Sprint" && len(cp.Ts) > 1) {
		// where the operand's Go TYPE shows, a wrapper is a type of its own: named in the report of a surplus operand, and
		// not a string when Sprint decides about a blank between two operands
		return
	}
	sc := lib.NewCtxLike(c.Dict, c.HandleBase)
	defer sc.Release()
	args := sc.Values(cp.Ts)
	var std string
	switch ln.C.E {
	case "Sprintf":
		std = fmt.Sprintf(string(c.Subst(ln.C.F)), args...)
	case "Sprint":
		std = fmt.Sprint(args...)
	case "Sprintln":
		std = fmt.Sprintln(args...)
	default:
		return
	}
	rep.Count("wrapper_chars_compared_with_fmt", 1)
	if got := lib.Strip(res.Out); !bytes.Equal(got, lib.EscapeAll([]byte(std))) {
		rep.Violate("printer:wrapper-chars", fmt.Sprintf("%s: characters %q, fmt prints %q for the operands without their wrappers", caseString(c, ln.C), got, std), kase)
	}
}

// stripWrappers returns the concrete innermost value of a wrapper chain.
func stripWrappers(c *lib.Ctx, t *lib.Term) interface{} {
	for t.K == "safe" || t.K == "unsafe" {
		t = t.Xs[0]
	}
	return c.Value(t)
}

// ownClassification: the value (or a part of it) declares a class itself.
func ownClassification(t *lib.Term) bool {
	switch t.K {
	case "safe", "unsafe":
		return ownClassification(t.Xs[0]) // a nested wrapper is overridden by the outer one
	case "rstring", "rbytes":
		return true
	case "obj":
		for _, cp := range t.Caps {
			if cp == "SF" || cp == "SM" || cp == "SV" || cp == "REG" {
				return true
			}
		}
		// a fmt.Formatter that finds the SafePrinter behind its fmt.State classifies only if it uses the
		// Safe*/Unsafe* calls or prints operands that classify themselves; Print/Printf/Write of plain
		// operands are "what fmt prints", written on behalf of the wrapped operand
		for _, op := range t.FScr {
			if strings.HasPrefix(op.O, "Safe") || strings.HasPrefix(op.O, "Unsafe") {
				return true
			}
			for _, x := range op.Ts {
				if ownClassification(x) {
					return true
				}
			}
		}
		for _, x := range t.Pan {
			if ownClassification(x) {
				return true
			}
		}
	}
	for _, x := range t.Xs {
		if ownClassification(x) {
			return true
		}
	}
	return false
}

// fmtCompatible: a wrapper chain around a value without redact-specific rendering anywhere.
func fmtCompatible(t *lib.Term) bool {
	underUnsafe := t.K == "unsafe" // the outermost wrapper decides
	for t.K == "safe" || t.K == "unsafe" {
		t = t.Xs[0]
	}
	var plain func(t *lib.Term) bool
	plain = func(t *lib.Term) bool {
		switch t.K {
		case "safe", "unsafe", "rstring", "rbytes":
			return false
		case "obj":
			for _, cp := range t.Caps {
				if cp == "SF" || cp == "SM" || cp == "FM" || cp == "NILP" {
					return false
				}
				if cp == "ER" && currentHook != "none" && !underUnsafe {
					return false // with an error hook registered an error is rendered by the hook, not as fmt would
					// (under Unsafe() the hook is bypassed: the characters are fmt's again)
				}
			}
		}
		for _, x := range t.Xs {
			if !plain(x) {
				return false
			}
		}
		return true
	}
	return plain(t)
}

// judgeC11: user-method panics are contained and reported in place.
func judgeC11(rep *lib.Report, c *lib.Ctx, ln *printerLine, res *realResult, kase json.RawMessage) {
	desc := caseString(c, ln.C)
	if res.Panicked {
		// allowed only when the panic payload itself panics while being printed (as in fmt)
		if !payloadPanics(ln.C.Ts) {
			rep.Violate("printer:panic", fmt.Sprintf("%s: panic %s reached the caller", desc, res.PanicVal), kase)
		}
		return
	}
	if !lib.WellFormed(res.Out) {
		rep.Violate("printer:illformed", fmt.Sprintf("%s: output %q", desc, res.Out), kase)
		return
	}
	s := lib.Strip(res.Out)
	if ln.C.E == "Sprintf" && bytes.HasPrefix(c.Subst(ln.C.F), []byte("a ")) && bytes.HasSuffix(c.Subst(ln.C.F), []byte(" a")) {
		if !bytes.HasPrefix(s, []byte("a ")) || !bytes.HasSuffix(s, []byte(" a")) {
			rep.Violate("printer:panic-lost-text", fmt.Sprintf("%s: text around the operand lost: %q", desc, res.Out), kase)
		}
	}
	if methodPanics(ln.C.Ts) && !nilReceiverOnly(ln.C.Ts) && reachesMethods(ln) && !bytes.Contains(s, []byte("(PANIC=")) {
		rep.Violate("printer:panic-unreported", fmt.Sprintf("%s: no PANIC= report in %q", desc, res.Out), kase)
	}
	judgePanicTwin(rep, c, ln, res, kase)
	// every entry point contains the panic: StringWithoutMarkers(f) is Sprint(f) without the markers
	for _, t := range ln.C.Ts {
		sc := lib.NewCtxLike(c.Dict, c.HandleBase)
		if sf, ok := sc.Value(t).(redact.SafeFormatter); ok {
			var want []byte
			sprintOK := func() (ok bool) {
				defer func() { ok = recover() == nil }()
				want = lib.Strip([]byte(redact.Sprint(sf)))
				return
			}()
			if sprintOK {
				func() {
					defer func() {
						if r := recover(); r != nil {
							rep.Violate("printer:panic", fmt.Sprintf("%s: Sprint of operand #%d contains the panic, StringWithoutMarkers lets it reach the caller: %v", desc, t.ID, r), kase)
						}
					}()
					got := redact.StringWithoutMarkers(sf)
					rep.AddEval(1)
					if !printsAddresses(ln) && got != string(want) {
						rep.Violate("printer:panic-lost-text", fmt.Sprintf("%s: StringWithoutMarkers of operand #%d gives %q, Sprint without its markers %q", desc, t.ID, got, want), kase)
					}
				}()
			}
		}
		sc.Release()
	}
	// the payload is unsafe: no secret payload text outside envelopes
	if leaked := secretsVisible(ln.C.Ts, res.Out); leaked != "" {
		rep.Violate("printer:panic-payload-visible", fmt.Sprintf("%s: secret payload %q is outside envelopes in %q", desc, leaked, res.Out), kase)
	}
}

// judgeSafeNumberTwin: what a SafeFormat method emits through SafeInt / SafeUint / SafeFloat is a safe text like any
// other; how it was emitted must not matter to anything printed after it (field names, separators, flags of the
// enclosing directive for the following elements).  The same call is made with those emitters replaced by
// SafeString of the same digits; for the flag-free number renderings of %v, %+v and Sprint the two results must be
// identical.
func judgeSafeNumberTwin(rep *lib.Report, c *lib.Ctx, ln *printerLine, res *realResult, kase json.RawMessage) {
	if res.Panicked || printsAddresses(ln) {
		return
	}
	f := string(c.Subst(ln.C.F))
	if ln.C.E != "Sprint" && ln.C.E != "Sprintln" && !(ln.C.E == "Sprintf" && (f == "a %v a" || f == "a %+v a" || f == "x=%v y=%v" || f == "x=%+v y=%+v")) {
		return
	}
	raw, _ := json.Marshal(ln.C)
	var tw pCase
	_ = json.Unmarshal(raw, &tw)
	changed := false
	walkTerms(tw.Ts, func(t *lib.Term) {
		for i, op := range t.Scr {
			var txt string
			switch op.O {
			case "SafeInt":
				txt = fmt.Sprint(op.N)
			case "SafeUint":
				txt = fmt.Sprint(uint64(int64(op.N)))
			case "SafeFloat":
				txt = fmt.Sprint(c.Value(op.Ts[0]))
			default:
				continue
			}
			nb := make([]int, len(txt))
			for j := range txt {
				nb[j] = int(txt[j])
			}
			t.Scr[i] = lib.SOp{O: "SafeString", B: nb}
			changed = true
		}
	})
	if !changed {
		return
	}
	// both runs in contexts of their own that share the object handles
	rc := lib.NewCtx(c.Dict)
	rr := runCase(rc, ln.C)
	rc.Release()
	tc := lib.NewCtxLike(c.Dict, rc.HandleBase)
	tr := runCase(tc, tw)
	tc.Release()
	rep.AddEval(1)
	if rr.Panicked || tr.Panicked {
		return
	}
	rep.Count("safe_number_twin_compared", 1)
	if !bytes.Equal(rr.Out, tr.Out) {
		rep.Violate("printer:safe-number-emitters", fmt.Sprintf("%s: output %q; with SafeInt/SafeUint/SafeFloat replaced by SafeString of the same digits the same call prints %q", caseString(c, ln.C), rr.Out, tr.Out), kase)
	}
}

// judgePanicTwin: "reported in place, the text before and after intact", stated relationally and model-free.
// The same call is made a second time with every user method writing a placeholder at the point where it
// would have panicked (and returning); the characters of the real result must be those of the twin with each
// placeholder replaced by the report %!<verb>(PANIC=<Method> method: <payload>) -- nothing lost before it,
// nothing added after it, no second rendering of the operand.
func judgePanicTwin(rep *lib.Report, c *lib.Ctx, ln *printerLine, res *realResult, kase json.RawMessage) {
	if !methodPanics(ln.C.Ts) || payloadPanics(ln.C.Ts) || printsAddresses(ln) {
		return
	}
	// both runs use contexts of their own with the same object handles (handles are numbers that can show in the output)
	rc := lib.NewCtx(c.Dict)
	rr := runCase(rc, ln.C)
	rc.Release()
	tc := lib.NewCtxLike(c.Dict, rc.HandleBase)
	tc.PanicTwin = true
	tr := runCase(tc, ln.C)
	tc.Release()
	rep.AddEval(1)
	if rr.Panicked || tr.Panicked || !lib.WellFormed(tr.Out) {
		return // the twin is only an oracle where it is itself orderly
	}
	res = &rr
	pat := regexp.QuoteMeta(string(lib.Strip(tr.Out)))
	for k, tw := range tc.Twins {
		payload := `(?s:.*?)`
		if pt := tw.Payload; pt != nil && (pt.K == "string" || pt.K == "int") {
			if txt := fmt.Sprint(c.Value(pt)); lib.WellFormed([]byte(txt)) && !bytes.Contains([]byte(txt), lib.StartM) && !bytes.ContainsAny([]byte(txt), "\n\xe2") {
				payload = regexp.QuoteMeta(txt) // (a payload holding markers / line feeds is shown escaped: any text)
			}
		}
		ph := regexp.QuoteMeta(lib.TwinPlaceholder(k))
		if !strings.Contains(pat, ph) || strings.Contains(pat, `"`+ph) || strings.Contains(pat, "`"+ph) {
			return // the placeholder was transformed on its way out (quoted, padded, cut by a precision): no oracle
		}
		pat = strings.Replace(pat, ph, `%!.\(PANIC=`+tw.Method+`\w* method: `+payload+`\)`, 1)
	}
	re, err := regexp.Compile(`^(?s:` + pat + `)$`)
	if err != nil {
		return
	}
	rep.Count("panic_twin_compared", 1)
	// ... and on the visible side: a contained panic does not change how the text after the report is classified
	// (what follows it is as visible as it is in the twin; the report's own frame is visible, its payload as declared)
	{
		// where a method's normal result would be unsafe text (String, Error, GoString), its placeholder sits inside an
		// envelope in the twin; the report of a panic there is written after the unsafe bracket has been left, so it is
		// visible: the placeholder is lifted out of its envelope before the visible texts are compared (not under
		// Unsafe(), where the report is enveloped like everything else)
		twinOut := tr.Out
		if !lib.HasKind(ln.C.Ts, "unsafe") {
			for k := range tc.Twins {
				ph := []byte(lib.TwinPlaceholder(k))
				if i := bytes.Index(twinOut, ph); i >= 0 && bytes.Count(twinOut[:i], lib.StartM) > bytes.Count(twinOut[:i], lib.EndM) {
					lifted := append(append(append([]byte{}, lib.EndM...), ph...), lib.StartM...)
					twinOut = append(append(append([]byte{}, twinOut[:i]...), lifted...), twinOut[i+len(ph):]...)
				}
			}
		}
		vpat := regexp.QuoteMeta(string(lib.DeleteEnvelopes(twinOut)))
		okv := true
		for k, tw := range tc.Twins {
			ph := regexp.QuoteMeta(lib.TwinPlaceholder(k))
			if !strings.Contains(vpat, ph) {
				okv = false // the placeholder itself sits inside an envelope in the twin (e.g. under Unsafe()): no oracle
				break
			}
			vpat = strings.Replace(vpat, ph, `%!.\(PANIC=`+tw.Method+`\w* method: (?s:.*?)\)`, 1)
		}
		if vre, err := regexp.Compile(`^(?s:` + vpat + `)$`); okv && err == nil {
			if got := lib.DeleteEnvelopes(res.Out); !vre.Match(got) {
				rep.Violate("printer:panic-changes-classification", fmt.Sprintf("%s: with envelopes deleted the output is %q; the twin (placeholders where methods would panic) shows %q: the text around the report is classified differently",
					caseString(c, ln.C), got, lib.DeleteEnvelopes(twinOut)), kase)
			}
		}
	}
	if got := lib.Strip(res.Out); !re.Match(got) {
		rep.Violate("printer:panic-not-in-place", fmt.Sprintf("%s: characters %q; with the panic points replaced by placeholders the same call prints %q, so %q was expected",
			caseString(c, ln.C), got, lib.Strip(tr.Out), pat), kase)
	}
}

// printsAddresses: the output may hold addresses, which differ from one run of the same call to the next
// (pointers, channels, funcs under any verb; maps and slices under %p)
func printsAddresses(ln *printerLine) bool {
	if lib.HasKind(ln.C.Ts, "ptrto", "chan", "func") {
		return true
	}
	for i := 0; i+1 < len(ln.C.F); i++ {
		if ln.C.F[i] == '%' && ln.C.F[i+1] == 'p' {
			return true
		}
	}
	return false
}

func walkTerms(ts []*lib.Term, fn func(t *lib.Term)) {
	for _, t := range ts {
		if t == nil {
			continue
		}
		fn(t)
		walkTerms(t.Xs, fn)
		walkTerms(t.Pan, fn)
		for _, op := range t.Scr {
			walkTerms(op.Ts, fn)
		}
		for _, op := range t.FScr {
			walkTerms(op.Ts, fn)
		}
	}
}

func methodPanics(ts []*lib.Term) bool {
	found := false
	walkTerms(ts, func(t *lib.Term) {
		if len(t.Pan) > 0 {
			found = true
		}
		for _, op := range append(append([]lib.SOp{}, t.Scr...), t.FScr...) {
			if op.O == "Panic" {
				found = true
			}
		}
	})
	return found
}

// payloadPanics: some panic payload is itself a value whose printing panics.
func payloadPanics(ts []*lib.Term) bool {
	found := false
	walkTerms(ts, func(t *lib.Term) {
		check := func(p *lib.Term) {
			// (anywhere inside the payload: a slice holding a value whose method panics, a wrapper around one, ...)
			walkTerms([]*lib.Term{p}, func(q *lib.Term) {
				if q.K == "obj" && (len(q.Pan) > 0) {
					found = true
				}
				for _, op := range append(append([]lib.SOp{}, q.Scr...), q.FScr...) {
					if op.O == "Panic" {
						found = true
					}
				}
			})
		}
		for _, p := range t.Pan {
			check(p)
		}
		for _, op := range append(append([]lib.SOp{}, t.Scr...), t.FScr...) {
			if op.O == "Panic" {
				for _, p := range op.Ts {
					check(p)
				}
			}
		}
	})
	return found
}

func nilReceiverOnly(ts []*lib.Term) bool {
	only := true
	walkTerms(ts, func(t *lib.Term) {
		if t.K == "obj" && (len(t.Pan) > 0 || len(t.Scr) > 0 || len(t.FScr) > 0) {
			only = false
		}
	})
	return only
}

// reachesMethods: the model recorded at least one user-method call for the case
// (a panicking method behind an unexported field or under a non-dispatching verb is never invoked).
func reachesMethods(ln *printerLine) bool {
	if currentSlice != "rnd" {
		return len(ln.Calls) > 0
	}
	// with several objects in one case: a method of an object that panics is among the recorded calls
	panics := map[int]bool{}
	walkTerms(ln.C.Ts, func(t *lib.Term) {
		if t.K != "obj" {
			return
		}
		if len(t.Pan) > 0 {
			panics[t.ID] = true
		}
		for _, op := range append(append([]lib.SOp{}, t.Scr...), t.FScr...) {
			if op.O == "Panic" {
				panics[t.ID] = true
			}
		}
	})
	for _, cl := range ln.Calls {
		if panics[cl.ID] {
			return true
		}
	}
	return false
}

func init() {
	register("printer-replay", "replay MCPrinter cases on the real printer", printerReplay)
}
