#!/usr/bin/env python3
"""Regenerates /verif/MANIFEST.json from the tables below (single source)."""
import json, os
ROOT = os.path.dirname(os.path.dirname(os.path.abspath(__file__)))
GOENVS = "GOFLAGS=-mod=mod GOPROXY=off GOSUMDB=off GOTOOLCHAIN=local"

CHECKS = {
 "C01": ("model_checking", "TLC model checking of Buffer/Escape/Printer TLA+ spec + replay of every explored transition on the real code + TLC trace validation of recorded real executions",
   "TLC enumerates exhaustively (within the stated small bounds) every reachable state of the TLA+ transcription of the output buffer, the escape scanner and the printer and checks WellFormed in each; every explored transition is replayed on the real code, whose hidden state and output must equal the model's and whose output is judged by an independent parser. The bounded exhaustive guarantee transfers to the code only as far as drift = 0 is observed.",
   "DESIGN.md 6/C01", "independent Go parser of the marker grammar; TLC; reflection access to Buffer fields; raw-mode writes assumed well-formed"),
 "C03": ("model_checking", "TLC model checking (LineSafe / per-line invariants on Buffer, Escape, Printer specs) + transition replay + trace validation",
   "Same exhaustive model exploration as C01 with the line-safety invariants (no LF inside an envelope; line-wise Redact/Strip equal whole-string Redact/Strip) checked in every model state and, model-free, on every real output using the real Redact/StripMarkers.",
   "DESIGN.md 6/C03", "LF is in every payload alphabet; real Redact/StripMarkers used for the per-line clause (they are C07's subject)"),
 "C09": ("model_checking", "TLC model checking of the SafeWriter/Buffer spec with denotation variables + replay on builder, printer and ManualBuffer + trace validation",
   "The denotation of a call history (stripped text, visible text) is carried as model variables and compared with the buffer output in every explored state; the same histories are replayed on the real implementations and judged from the payload history alone.",
   "DESIGN.md 6/C09", "equalities only for valid UTF-8 payloads / valid runes and flagless contexts (property text)"),
 "C13": ("model_checking", "TLC model checking of Buffer spec (accessor commutation, pristine Reset/Take) + replay with accessors inserted at every position, hidden state compared by reflection",
   "Every explored history is replayed with and without accessor calls after every operation; hidden state before/after each accessor is compared by reflection, Len against RedactableString, continuations after Reset/Take against a new object.",
   "DESIGN.md 6/C13", "Cap() and aliasing of RedactableBytes are outside the claim"),

 "C07": ("model_checking", "TLC model checking of Markers spec over all token strings up to a bound + replay of every string on the real Redact/StripMarkers + TLC trace validation of random longer inputs",
   "Every string over the distinguishing alphabet (whole markers, the cross, LF, ordinary byte, each partial-marker byte) up to the bound is enumerated by TLC, the projection laws are checked on the model, and the real string/bytes variants are compared byte-exact with the model and judged against the statement itself.",
   "DESIGN.md 6/C07", "Go regexp engine treated as part of the implementation under test; F6 listed as known finding"),
 "C10": ("model_checking", "TLC model checking of Escape/Buffer spec over all byte strings up to a bound x every offset x flags + byte-exact replay on InternalEscapeBytes/EscapeMarkers/EscapeBytes/ManualBuffer + trace validation",
   "Exhaustive within the bound for every start offset and flag combination; byte-exact agreement of the real escape functions with the transcription; input slices checked unmodified; split-insensitivity checked on the real buffer for every split point.",
   "DESIGN.md 6/C10", "utf8.DecodeLastRune from the Go standard library is trusted as the definition of a dangling sequence"),
 "C04": ("model_checking", "TLC model checking of the Format spec (doPrintf parser) over all short format strings + replay with recording operands under redact and fmt + differential runs against fmt over a value universe",
   "The directive parser is transcribed statement for statement; TLC enumerates all formats over a 16-token alphabet up to the bound and the real redact and fmt printers must both render exactly what the model's item list renders; the value-level clause is decided by a large differential run against the installed fmt judged by the property's own equation.",
   "DESIGN.md 6/C04", "installed fmt (Go 1.23) is the reference the property names; leaf digit strings are not modelled (fmt supplies them)"),
 "C14": ("model_checking", "complete TLC enumeration of the Fwd spec (MakeFormat round trip through the Format parser) + replay of every directive with probe formatters under real fmt and real redact",
   "The directive space of the property's quantifier is enumerated completely at the thorough tier; the model's MakeFormat string must equal the real one under both printers, the real round trip must re-observe the same flags/width/precision/verb, and wrappers/forwarders print like the bare operand under fmt for 19 kinds.",
   "DESIGN.md 6/C14", "Go 1.23 fmt as the standard fmt.State"),
 "C02": ("model_checking", "TLC model checking of the Printer spec (payload-agnostic by construction: payloads are opaque tokens) + replay of every case with two instantiations of the secret payloads on the real code",
   "The specification never inspects a payload, so the model output is a function of the shape alone; the model-level invariant places every undeclared token inside an envelope. Each enumerated case is run twice on the real code with different secrets; Redact() of the two results must be identical and sentinel-free.",
   "DESIGN.md 6/C02", "public values shared between the two instantiations are chosen by the statement-level classification (Go port)"),
 "C05": ("model_checking", "TLC model checking of the Printer spec against a statement-level classification (inherited attribute) + byte-exact replay + the same equation on real outputs",
   "Operational model (modes, overrides, restorers) checked by TLC against an independent denotational classification on every enumerated case; the real printer must reproduce the model byte for byte and satisfy the visible-text equation.",
   "DESIGN.md 6/C05", "fmt supplies leaf texts; classification port in Go mirrors MCPrinter!Ctxs"),
 "C06": ("model_checking", "TLC model checking of the Printer spec over wrapper nestings x value universe incl. call-back scripts + replay + negative control on the pre-repair model",
   "TLC checks on every case that an Unsafe-outermost operand is entirely enveloped and a Safe-outermost unclassified one not at all; the same predicates are evaluated on the real outputs; the pre-repair specification (F3) is kept and must violate the invariant (vacuity control).",
   "DESIGN.md 6/C06", "F3 repaired by fix commit 4e24046"),
 "C11": ("model_checking", "TLC model checking of Printer (panic propagation through restorers/catchPanic/nested printers) and Buffer (every rune/byte class in every reachable state) + replay under recover on the real code",
   "Totality of every buffer operation over all reachable states and rune classes; containment, in-place report and restoration after user-method panics at every script position, replayed on the real code under recover with plain and hot payloads.",
   "DESIGN.md 6/C11", "F1, F2 repaired by fix commits; Grow(<0) and memory exhaustion outside the claim"),
 "C15": ("model_checking", "TLC model checking of the Printer spec (%w bookkeeping in handleMethods: wrapErrs/wrappedErr) over the errorf slice + replay on HelperForErrorf judged by the statement and by fmt.Errorf",
   "Every format/operand combination of the slice is run through the transcribed %w logic in TLC (invariant: returned error per statement, F4 class aside) and through the real HelperForErrorf, whose returned error identity and text are judged by the statement and cross-checked with fmt.Errorf.",
   "DESIGN.md 6/C15", "F4/F5 known findings; Go 1.23 fmt.Errorf as cross-check for <=1 %w"),
 "C17": ("model_checking", "TLC model checking of the Printer spec with HookKind constant (dispatch order in handleMethods) over the hook slice + replay with a recording hook installed in-process",
   "TLC checks on every case that the hook is invoked exactly for the error operands the statement names (and never under Unsafe); the real hook records (error identity, verb) and the log must equal both the model's and the statement's.",
   "DESIGN.md 6/C17", "hook functions are the four fixed ones of Printer!HookScript"),
 "C16": ("model_checking", "TLC model checking of the four routes (direct, builder, Sprintfn, SafeFormat) on the Printer/builder spec + the 8 real routes run on the same operands with recording writers",
   "The specification's builder layer (PreRedactable write of a finished text) and nested-printer layer (borrowed buffer, restored mode) are checked equal up to envelope merging on every case; the real routes are compared among themselves, and the Fprint writer protocol (single Write, n and err passed through) is checked with ok/failing/short writers.",
   "DESIGN.md 6/C16", "none beyond the harness"),
 "C08": ("model_checking", "TLC model checking of the Printer/builder spec on redactables produced by the model itself (print -> reprint -> join -> reprint) + replay + relational judge on the real code",
   "The set of redactables is generated inside TLC by running the printer model on every short payload, then closed under re-printing in every shape/verb, concatenation and joining; identity and distribution laws are invariants; the real code must match byte for byte and satisfy the placeholder-substitution relation.",
   "DESIGN.md 6/C08", "none beyond the harness"),
 "C12": ("model_checking", "TLC model checking of the Pool spec (all interleavings of printer lifetimes) + TLC-generated behaviours replayed as call histories with probes + TLC trace validation of recorded pool events + Go race detector for the race clause",
   "The pool protocol (what newPrinter re-initialises, what free clears, who owns the backing array) is model-checked over all interleavings; behaviours generated by TLC drive the real library and 21 probes are compared with a fresh process; the get/put/drop events of those runs and of a 16-goroutine stress run are validated by TLC; seeded model defects and corrupted events are detected (controls).",
   "DESIGN.md 6/C12, 8", "sync.Pool itself and the Go race detector are trusted"),
}

NOT_YET = {
}

def main():
    props = [json.loads(l) for l in open(os.path.join(ROOT, "properties.jsonl"))]
    checks, na = [], []
    for p in props:
        pid = p["id"]
        if pid in CHECKS:
            cat, tech, text, ref, note = CHECKS[pid]
            checks.append({
                "property_id": pid,
                "quick_cmd": "./check %s --tier quick" % pid,
                "thorough_cmd": "./check %s --tier thorough" % pid,
                "evidence_file": "/verif/evidence/%s.json" % pid,
                "replay_cmd_template": "./check %s --replay {path}" % pid,
                "engine": "tlc+conf",
                "level_claimed": {"category": cat, "text": text, "design_ref": ref},
                "level_note": note,
                "technique": tech,
            })
        else:
            na.append({"property_id": pid, "reason": NOT_YET.get(pid, "not yet covered by the specification in this revision; no check is claimed (work in progress, see DESIGN.md section 10)")})
    man = {
        "version": 1,
        "setup_cmd": "./setup.sh",
        "hooks": {
            "guard": "verif",
            "enable": "go build -tags verif (the harness module /verif/harness replaces github.com/cockroachdb/redact with /repo)",
            "baseline_off_cmd": "cd /repo && %s go test -mod=mod -json -vet=off -count=1 -timeout 25m ./..." % GOENVS,
            "source_commits": HOOK_COMMITS,
            "add_only": True,
        },
        "engines": [
            {"name": "tlc+conf", "path": "/verif/check", "serves_properties": sorted(CHECKS),
             "kind_free_text": "explicit TLA+ specification (/verif/spec) model-checked by TLC; bound to /repo by a Go conformance harness (/verif/harness) that replays TLC-explored transitions on the real code and records real traces that TLC validates against trace specifications"},
        ],
        "checks": checks,
        "not_applicable": na,
        "notes": "Fix commits in /repo: see known_findings.json (entries 'fixed'). Exit codes of ./check: 0 held / 1 violation / 2 machinery broken.",
    }
    json.dump(man, open(os.path.join(ROOT, "MANIFEST.json"), "w"), indent=1)
    print("MANIFEST.json: %d checks, %d not_applicable" % (len(checks), len(na)))

HOOK_COMMITS = ["e6c86a8b57c7005d8c141e75e32782113ecf75c8", "1974e3617244a498260bbb48cbdb96830ebff0f2", "7a7691f2e3d038ea45b0b886ae895fa0375ca538", "a0f99a856aec567ae477ec329b9dfcbed09bb74b", "54bdbb2d097f8bda75b30b2bfc0927d3bc608444", "04a1447f86a8a6d185872e359a909cad54a26bf0"]
if __name__ == "__main__":
    main()
