module github.com/cockroachdb/redact/verifharness

go 1.23

require github.com/cockroachdb/redact v0.0.0

replace github.com/cockroachdb/redact => /repo
