package main

import (
	"encoding/json"
	"errors"
	"flag"
	"fmt"
	"os"
	"runtime"
	"strconv"
	"strings"

	"github.com/cockroachdb/redact"
	"github.com/cockroachdb/redact/verifharness/lib"
)

type fwdLine struct {
	F     lib.B  `json:"f"`
	NArgs int    `json:"nargs"`
	W     string `json:"w"`
	P     string `json:"p"`
	V     int    `json:"v"`
	JustV bool   `json:"justv"`
	MF    lib.B  `json:"mf"`
}

type fwdCase struct {
	Kind string `json:"kind"`
	F    lib.B  `json:"f"`
	W    string `json:"w"`
	P    string `json:"p"`
}

// obs is what a Format method can observe of the active directive.
type obs struct {
	Verb  rune
	Flags string
	W, P  int // -1 absent
	JustV bool
	MF    string
	Calls int
}

func observe(s fmt.State, verb rune) obs {
	o := obs{Verb: verb, W: -1, P: -1}
	for _, c := range "+-# 0" {
		if s.Flag(int(c)) {
			o.Flags += string(c)
		}
	}
	if w, ok := s.Width(); ok {
		o.W = w
	}
	if p, ok := s.Precision(); ok {
		o.P = p
	}
	o.JustV, o.MF = redact.MakeFormat(s, verb)
	return o
}

func (o obs) same(p obs) bool {
	return o.Verb == p.Verb && o.Flags == p.Flags && o.W == p.W && o.P == p.P
}

// fProbe is a plain Formatter; sfProbe a SafeFormatter.
type fProbe struct{ o *obs }

func (p fProbe) Format(s fmt.State, verb rune) {
	c := p.o.Calls
	*p.o = observe(s, verb)
	p.o.Calls = c + 1
}

type sfProbe struct{ o *obs }

func (p sfProbe) SafeFormat(s redact.SafePrinter, verb rune) {
	c := p.o.Calls
	*p.o = observe(s, verb)
	p.o.Calls = c + 1
}

// fwdPanicker's Format method panics for every verb.
type fwdPanicker struct{}

func (fwdPanicker) Format(s fmt.State, verb rune) { panic("boom") }

// forwarder prints its value by re-creating the directive with MakeFormat.
type forwarder struct{ x interface{} }

func (f forwarder) Format(s fmt.State, verb rune) {
	_, ff := redact.MakeFormat(s, verb)
	fmt.Fprintf(s, ff, f.x)
}

func starArgs(w, p string) []interface{} {
	var out []interface{}
	if strings.HasPrefix(w, "*") {
		n, _ := strconv.Atoi(w[1:])
		out = append(out, n)
	}
	if strings.HasPrefix(p, "*") {
		n, _ := strconv.Atoi(p[1:])
		out = append(out, n)
	}
	return out
}

var fwdKinds = []interface{}{
	true, int(-42), int8(7), int16(-300), int32(65), int64(1 << 40), uint(42), uint8(200), uint16(9), uint32(77), uint64(1 << 50), uintptr(4096),
	float32(1.5), float64(-2.25), complex64(1 + 2i), complex128(-1.5 + 0.5i), "str\"q", []byte("by\x00"), nil,
	// (not short decimals in binary: 32 and 64 bits print differently)
	float32(0.1), complex64(0.1 + 0.7i), namedF32(0.3), []float32{0.1}, float64(0.1),
	// values with formatting methods of their own, nil receivers (fmt prints <nil> when the method of a nil
	// pointer operand panics), panicking methods, composites
	strStringer("s"), errors.New("e"), &errT{"pe"}, valErr{"ve"}, goStr{"g"}, echoFormatter{"t"}, &echoFormatter{"p"},
	(*echoFormatter)(nil), (*ptrStringer)(nil), (*nilOKStringer)(nil), (*errT)(nil), &ptrStringer{"x"},
	panicStringer{"boom"}, panicFormatter{"fboom"}, namedInt(5), namedString("ns"),
	[]interface{}{1, "a", nil}, map[string]int{"a": 1}, struct{ A, b interface{} }{1, "x"}, &inner{1, "s", nil}, [2]bool{true, false},
}

// sfNumbers: a SafeFormatter that emits numbers through the typed safe methods (they format with the printer's own
// number formatter, under the flags of the enclosing directive)
type sfNumbers struct{}

func (sfNumbers) SafeFormat(p redact.SafePrinter, _ rune) {
	p.SafeInt(7)
	p.SafeUint(8)
	p.SafeFloat(2.5)
}

func judgeFwd(rep *lib.Report, ln fwdLine, haveModel bool) {
	f := string(ln.F)
	stars := starArgs(ln.W, ln.P)
	kase := fwdCase{"fwd", ln.F, ln.W, ln.P}
	type env struct {
		name string
		run  func(format string, probe interface{}) string
	}
	envs := []env{
		{"fmt", func(format string, probe interface{}) string {
			return fmt.Sprintf(format, append(append([]interface{}{}, stars...), probe)...)
		}},
		{"redact", func(format string, probe interface{}) string {
			return string(redact.Sprintf(format, append(append([]interface{}{}, stars...), probe)...))
		}},
	}
	zeroMinus := strings.Contains(f[:len(f)-1], "0") && (strings.Contains(f, "-") || ln.W == "*-4") &&
		// only a '0' that is a flag (before any width digit): the generator writes flags first
		strings.Contains(strings.TrimLeft(f[1:], "+-# "), "0") && strings.HasPrefix(strings.TrimLeft(f[1:], "+-# "), "0")
	seen := map[string]obs{} // what the method observed, per printer
	defer func() {
		// the width and the precision the method observes are those of the directive: the standard printer is the
		// reference (C14 speaks of re-creating the ACTIVE directive; what is active is what fmt would have parsed)
		if of, ok := seen["fmt/Formatter"]; ok {
			for _, name := range []string{"redact/Formatter", "redact/SafeFormatter"} {
				if or, ok := seen[name]; ok && (or.W != of.W || or.P != of.P) {
					rep.Violate("fwd:width-precision-observed", fmt.Sprintf("%s: directive %q gives the method width %d precision %d; under fmt it is width %d precision %d", name, f, or.W, or.P, of.W, of.P), kase)
				}
			}
		}
	}()
	for ei, e := range envs {
		for variant := 0; variant < 2; variant++ {
			if ei == 0 && variant == 1 {
				continue // SafeFormatter is meaningless under fmt
			}
			var o1 obs
			var probe interface{} = fProbe{&o1}
			if variant == 1 {
				probe = sfProbe{&o1}
			}
			e.run(f, probe)
			rep.AddEval(1)
			name := e.name + []string{"/Formatter", "/SafeFormatter"}[variant]
			if o1.Calls == 1 {
				seen[name] = o1
			}
			if o1.Calls != 1 {
				rep.Violate("fwd:not-dispatched", fmt.Sprintf("%s: directive %q did not reach the operand's method exactly once (%d)", name, f, o1.Calls), kase)
				continue
			}
			// what was issued: the flag characters of the directive itself ('0' is dropped next to '-' or a negative
			// star width, which sets '-': the rule of the fork; under fmt 1.23 Flag('0') stays set, not compared)
			issued := ""
			body := strings.TrimRight(f[1:], string(rune(ln.V)))
			for _, c := range "+-# 0" {
				has := false
				for _, d := range body {
					if strings.ContainsRune("+-# 0", d) {
						if d == c {
							has = true
						}
					} else {
						break
					}
				}
				if c == '-' && ln.W == "*-4" {
					has = true
				}
				if has {
					issued += string(c)
				}
			}
			if strings.Contains(issued, "-") {
				issued = strings.ReplaceAll(issued, "0", "")
			}
			seen := o1.Flags
			if ei == 0 && strings.Contains(seen, "-") {
				seen = strings.ReplaceAll(seen, "0", "")
			}
			if seen != issued {
				rep.Violate("fwd:flags-observed", fmt.Sprintf("%s: directive %q carries flags %q but the operand's method observes %q", name, f, issued, o1.Flags), kase)
			}
			if o1.Verb != rune(ln.V) {
				rep.Violate("fwd:verb", fmt.Sprintf("%s: directive %q delivered verb %q", name, f, o1.Verb), kase)
			}
			// (a) the returned format re-creates what was observed, under the same printer (no star operands now)
			var o2 obs
			var probe2 interface{} = fProbe{&o2}
			if variant == 1 {
				probe2 = sfProbe{&o2}
			}
			if ei == 0 {
				_ = fmt.Sprintf(o1.MF, probe2)
			} else {
				redact.Sprintf(o1.MF, probe2)
			}
			if o2.Calls != 1 || !o1.same(o2) {
				rep.Violate("fwd:roundtrip", fmt.Sprintf("%s: directive %q observed %+v; MakeFormat gave %q which is observed as %+v", name, f, o1, o1.MF, o2), kase)
			}
			// (b) justV exactly for the bare %v
			bare := o1.Verb == 'v' && o1.Flags == "" && o1.W < 0 && o1.P < 0
			if o1.JustV != bare {
				rep.Violate("fwd:justv", fmt.Sprintf("%s: directive %q observed %+v but justV=%v", name, f, o1, o1.JustV), kase)
			}
			// model comparison (the fork's parser; fmt 1.23 differs only for '0' with '-')
			if haveModel && !(ei == 0 && zeroMinus) {
				if o1.MF != string(ln.MF) || o1.JustV != ln.JustV {
					rep.DriftAt(fmt.Sprintf("%s: directive %q: MakeFormat = (%v,%q), model (%v,%q)", name, f, o1.JustV, o1.MF, ln.JustV, string(ln.MF)))
				}
			}
		}
	}
	// '*' operands of a NAMED integer type (a column width type, a SafeInt, a time.Duration) are integers like any other
	if len(stars) > 0 {
		named := make([]interface{}, len(stars))
		for i, v := range stars {
			if n, ok := v.(int); ok {
				named[i] = namedInt(n)
			} else {
				named[i] = v
			}
		}
		var of, or obs
		_ = fmt.Sprintf(f, append(append([]interface{}{}, named...), fProbe{&of})...)
		redact.Sprintf(f, append(append([]interface{}{}, named...), fProbe{&or})...)
		rep.AddEval(1)
		if of.Calls == 1 && (or.Calls != 1 || or.W != of.W || or.P != of.P) {
			rep.Violate("fwd:width-precision-observed", fmt.Sprintf("redact: directive %q with '*' operands of a named integer type gives the method width %d precision %d (calls %d); under fmt it is width %d precision %d", f, or.W, or.P, or.Calls, of.W, of.P), kase)
		}
	}
	// the same directive applied to a container: an earlier element whose method panics (contained and
	// reported) must not change what a later element observes
	{
		var o3 obs
		out := string(redact.Sprintf(f, append(append([]interface{}{}, stars...), []interface{}{fwdPanicker{}, fProbe{&o3}})...))
		rep.AddEval(1)
		var o1 obs
		redact.Sprintf(f, append(append([]interface{}{}, stars...), fProbe{&o1})...)
		if o3.Calls != 1 || !o1.same(o3) || o1.MF != o3.MF {
			rep.Violate("fwd:after-panic", fmt.Sprintf("redact: directive %q on [panicking element, probe]: the probe observed %+v, alone it observes %+v (output %q)", f, o3, o1, out), kase)
		}
	}
	// ... nor must any other earlier element (the printer changes its flags while printing some kinds, e.g. the
	// imaginary part of a complex number, and has to put them back)
	for _, sib := range []interface{}{sfNumbers{}, complex(1, 2), complex64(complex(-1, 0.5)), 1.5, "s", []int{1, 2}, struct{ A int }{1}, nil, true, []byte("b"), redact.Safe(3), redact.Unsafe("u")} {
		var o4, o1 obs
		out := string(redact.Sprintf(f, append(append([]interface{}{}, stars...), []interface{}{sib, fProbe{&o4}})...))
		redact.Sprintf(f, append(append([]interface{}{}, stars...), fProbe{&o1})...)
		rep.AddEval(1)
		if o4.Calls != 1 || !o1.same(o4) || o1.MF != o4.MF {
			rep.Violate("fwd:after-sibling", fmt.Sprintf("redact: directive %q on [%#v, probe]: the probe observed %+v, alone it observes %+v (output %q)", f, sib, o4, o1, out), kase)
		}
	}
	// (c),(d) under the standard fmt, Safe(x), Unsafe(x) and a forwarding formatter print exactly like x
	for _, x := range fwdKinds {
		mk := func(v interface{}) []interface{} { return append(append([]interface{}{}, stars...), v) }
		direct := fmt.Sprintf(f, mk(x)...)
		rep.AddEval(3)
		if got := fmt.Sprintf(f, mk(redact.Safe(x))...); got != direct {
			rep.Violate("fwd:safe-wrapper", fmt.Sprintf("fmt.Sprintf(%q, Safe(%#v)) = %q, direct %q", f, x, got, direct), kase)
		}
		if got := fmt.Sprintf(f, mk(redact.Unsafe(x))...); got != direct {
			rep.Violate("fwd:unsafe-wrapper", fmt.Sprintf("fmt.Sprintf(%q, Unsafe(%#v)) = %q, direct %q", f, x, got, direct), kase)
		}
		if got := fmt.Sprintf(f, mk(forwarder{x})...); got != direct {
			rep.Violate("fwd:forwarder", fmt.Sprintf("forwarding formatter under %q with %#v printed %q, direct %q", f, x, got, direct), kase)
		}
	}
	rep.Nontrivial(string(ln.MF) + "|" + f)
}

func fwdReplay(args []string) {
	fs := flag.NewFlagSet("fwd-replay", flag.ExitOnError)
	fs.String("prop", "C14", "")
	fs.Parse(args)
	rep := lib.NewReport("C14", "fwd-replay")
	lib.Parallel(runtime.NumCPU(), func(emit func([]byte)) {
		_ = lib.TLCLines(os.Stdin, func(raw []byte) { emit(append([]byte(nil), raw...)) })
	}, func(raw []byte) {
		var ln fwdLine
		if err := json.Unmarshal(raw, &ln); err != nil || len(ln.F) == 0 {
			return
		}
		rep.AddReplayed(1)
		judgeFwd(rep, ln, true)
		if len(ln.F) > 7 {
			rep.Sample(map[string]interface{}{"directive": string(ln.F), "model_MakeFormat": string(ln.MF), "justV": ln.JustV})
		}
	})
	// beyond the model's handful of widths and precisions: every value 0..300 and the powers of two / ten around which
	// tables, small-buffer sizes and digit counts change (the specification treats the number as a number)
	var ns []int
	for n := 0; n <= 300; n++ {
		ns = append(ns, n)
	}
	ns = append(ns, 511, 512, 999, 1000, 1023, 1024, 4095, 4096, 9999, 10000, 65535, 65536, 99999, 100000)
	var sweep []fwdLine
	for _, n := range ns {
		d := strconv.Itoa(n)
		for _, f := range []string{"%" + d + "d", "%." + d + "d", "%" + d + "." + d + "s", "%-" + d + "v", "%+." + d + "v", "%0" + d + "x"} {
			sweep = append(sweep, fwdLine{F: lib.B(f), V: int(f[len(f)-1])})
		}
	}
	lib.Parallel(runtime.NumCPU(), func(emit func([]byte)) {
		for i := range sweep {
			emit([]byte(strconv.Itoa(i)))
		}
	}, func(raw []byte) {
		i, _ := strconv.Atoi(string(raw))
		judgeFwd(rep, sweep[i], false)
	})
	rep.Count("width_precision_sweep_directives", len(sweep))
	rep.Finish()
}

func init() {
	register("fwd-replay", "C14: replay MCFwd directives: MakeFormat under fmt and redact, wrappers and forwarders under fmt", fwdReplay)
}
