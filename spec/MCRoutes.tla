------------------------------- MODULE MCRoutes -------------------------------
(***************************************************************************)
(* C16: the same argument list through the four routes.                    *)
(***************************************************************************)
EXTENDS PSpec

\* the same argument list through the other three routes of C16
RouteOp(k)  == IF k.e = "Sprint" THEN SPrint(k.ts) ELSE SPrintf(k.f, k.ts)
RouteSB(k)  == SBRun(<<RouteOp(k)>>)                                              \* StringBuilder.Print / Printf
RouteFn(k)  == Sprintfn(<<RouteOp(k)>>)                                           \* SafePrinter inside Sprintfn
RouteSF(k)  == Sprint(<<TObj(990, {"SF"}, <<RouteOp(k)>>, <<>>, <<>>, <<>>)>>)    \* SafePrinter inside a SafeFormat method
\* ... whatever directive the SafeFormatter itself is printed with
RouteSFv(k, f) == Sprintf(f, <<TObj(990, {"SF"}, <<RouteOp(k)>>, <<>>, <<>>, <<>>)>>)
C16Holds(k, r) ==
  (k.e \in {"Sprint", "Sprintf"}) =>
    LET sb == RouteSB(k)  fn == RouteFn(k)  sf == RouteSF(k) IN
    \* (an argument list whose printing panics out of Sprint is outside: inside a SafeFormat method the
    \*  same panic meets one more catchPanic and is reported instead of propagating)
    ~Exc(r) => /\ ~Exc(sb) /\ ~Exc(fn) /\ ~Exc(sf)
                  /\ NormOf(Out(sb)) = NormOf(Out(r))
                  /\ NormOf(Out(fn)) = NormOf(Out(r))
                  /\ NormOf(Out(sf)) = NormOf(Out(r))
                  /\ \A f \in {FplusV, FsharpV, F6v, Fd} :
                        LET v == RouteSFv(k, f) IN ~Exc(v) /\ NormOf(Out(v)) = NormOf(Out(r))


Holds(name, cond) == IF cond THEN TRUE ELSE PrintT(<<"INVARIANT-FAILED", name, c>>) /\ FALSE

\* the ONE zero-arity definition that reaches the printer operators
Check == lvl = 1 =>
  LET r == Run(c)  ok == ~Exc(r) IN
  /\ Holds("WellFormed", ok => (WellFormed(Out(r)) /\ LineSafe(Out(r))))
  /\ Holds("C16", C16Holds(c, r))
  /\ (EmitOn => PrintT(ToJson([c |-> c, exc |-> ~ok, out |-> IF ok THEN Out(r) ELSE <<>>, rt |-> r.rt,
                                calls |-> r.calls, werr |-> r.wrappedErr])))
=============================================================================
