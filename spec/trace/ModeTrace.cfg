SPECIFICATION Spec
CONSTANTS
  TraceFile = "mode.ndjson"
  HookKind = "none"
  NestedOverride = "inherited"
  SMOverride = "strverbs"
INVARIANT Done
CHECK_DEADLOCK FALSE
