package main

import (
	"bytes"
	"encoding/json"
	"flag"
	"fmt"
	"os"
	"runtime"

	"github.com/cockroachdb/redact"
	"github.com/cockroachdb/redact/verifharness/lib"
)

// pCase is a printing case of MCPrinter (entry point, format, operand terms).
type pCase struct {
	E   string      `json:"e"`
	F   []int       `json:"f"`
	Ts  []*lib.Term `json:"ts"`
	Scr []lib.SOp   `json:"scr"`
}

type printerLine struct {
	C     pCase         `json:"c"`
	Exc   bool          `json:"exc"`
	Out   []int         `json:"out"`
	Rt    []lib.RtEntry `json:"rt"`
	Calls []lib.CallRec `json:"calls"`
	Werr  int           `json:"werr"`
}

type realResult struct {
	Out      []byte
	Panicked bool
	PanicVal string
	Err      error
	Calls    []lib.CallRec
	Args     []interface{}
}

// runCase executes the case on the real library with the given dictionary.
func runCase(c *lib.Ctx, k pCase) (res realResult) {
	c.Index(k.Ts)
	for _, op := range k.Scr {
		c.Index(op.Ts)
	}
	args := c.Values(k.Ts)
	res.Args = args
	defer func() {
		if r := recover(); r != nil {
			res.Panicked = true
			res.PanicVal = fmt.Sprint(r)
		}
		res.Calls = c.Calls
	}()
	switch k.E {
	case "Sprintf":
		res.Out = []byte(redact.Sprintf(string(c.Subst(k.F)), args...))
	case "Sprint":
		res.Out = []byte(redact.Sprint(args...))
	case "Errorf":
		s, err := redact.HelperForErrorf(string(c.Subst(k.F)), args...)
		res.Out, res.Err = []byte(s), err
	case "Sprintfn":
		res.Out = []byte(redact.Sprintfn(func(w redact.SafePrinter) { c.RunScript(k.Scr, w, nil, 'v') }))
	default:
		panic("unknown entry " + k.E)
	}
	return
}

func printerReplay(args []string) {
	fs := flag.NewFlagSet("printer-replay", flag.ExitOnError)
	prop := fs.String("prop", "ALL", "")
	hook := fs.String("hook", "none", "error hook installed for the whole run")
	fs.Parse(args)
	installHook(*hook)
	rep := lib.NewReport(*prop, "printer-replay")
	lib.Parallel(runtime.NumCPU(), func(emit func([]byte)) {
		_ = lib.TLCLines(os.Stdin, func(raw []byte) { emit(append([]byte(nil), raw...)) })
	}, func(raw []byte) {
		var ln printerLine
		if err := json.Unmarshal(raw, &ln); err != nil || ln.C.E == "" {
			return
		}
		rep.AddReplayed(1)
		replayPrinterLine(rep, *prop, &ln, raw)
	})
	rep.Finish()
}

func replayPrinterLine(rep *lib.Report, prop string, ln *printerLine, raw []byte) {
	c := lib.NewCtx(nil)
	defer c.Release()
	res := runCase(c, ln.C)
	rep.AddEval(1)
	desc := func() string { return caseString(c, ln.C) }
	if res.Panicked != ln.Exc {
		rep.DriftAt(fmt.Sprintf("%s: real panicked=%v (%s), model says %v", desc(), res.Panicked, res.PanicVal, ln.Exc))
		return
	}
	if res.Panicked {
		return
	}
	exp, hot := c.Expect(ln.Out, ln.Rt)
	if hot {
		rep.Hot()
	} else if !bytes.Equal(res.Out, exp) {
		rep.DriftAt(fmt.Sprintf("%s: real %q, model %q", desc(), res.Out, exp))
	}
	if !usesStdFmt(ln) && !callsEqual(res.Calls, ln.Calls) {
		rep.DriftAt(fmt.Sprintf("%s: user methods invoked %v, model %v", desc(), res.Calls, ln.Calls))
	}
	if ln.C.E == "Errorf" {
		var want interface{}
		if ln.Werr != 0 {
			want = c.Value(findTerm(ln.C.Ts, ln.Werr))
		}
		if (res.Err == nil) != (want == nil) || (res.Err != nil && interface{}(res.Err) != want) {
			rep.DriftAt(fmt.Sprintf("%s: returned error %v, model term %d", desc(), res.Err, ln.Werr))
		}
	}
	judgePrinter(rep, prop, c, ln, &res, raw)
	rep.Nontrivial(string(exp))
	if len(ln.Rt) > 1 {
		rep.Sample(map[string]interface{}{"case": desc(), "real_output": string(res.Out), "model_output": string(exp)})
	}
}

// usesStdFmt: some part of the case is rendered by the standard fmt package (the
// Format/SafeMessage methods of the Safe/Unsafe wrappers); the methods fmt invokes
// there are outside the specification's call log.
func usesStdFmt(ln *printerLine) bool {
	var has func(ts []*lib.Term) bool
	has = func(ts []*lib.Term) bool {
		for _, t := range ts {
			if t == nil {
				continue
			}
			if t.K == "safe" || t.K == "unsafe" {
				return true
			}
			if has(t.Xs) || has(t.Pan) {
				return true
			}
			for _, op := range t.Scr {
				if has(op.Ts) {
					return true
				}
			}
			for _, op := range t.FScr {
				if has(op.Ts) {
					return true
				}
			}
		}
		return false
	}
	for _, op := range ln.C.Scr {
		if has(op.Ts) {
			return true
		}
	}
	return has(ln.C.Ts)
}

func findTerm(ts []*lib.Term, id int) *lib.Term {
	for _, t := range ts {
		if t == nil {
			continue
		}
		if t.ID == id {
			return t
		}
		if x := findTerm(t.Xs, id); x != nil {
			return x
		}
	}
	return nil
}

func callsEqual(a, b []lib.CallRec) bool {
	if len(a) != len(b) {
		return false
	}
	for i := range a {
		// the verb is only recorded for SafeFormat / Format / Hook by both sides
		if a[i].M != b[i].M || a[i].ID != b[i].ID {
			return false
		}
		if (a[i].M == "SafeFormat" || a[i].M == "Format" || a[i].M == "Hook") && a[i].V != b[i].V {
			return false
		}
	}
	return true
}

func caseString(c *lib.Ctx, k pCase) string {
	switch k.E {
	case "Sprintf", "Errorf":
		return fmt.Sprintf("%s(%q, %s)", k.E, c.Subst(k.F), termsString(k.Ts))
	case "Sprint":
		return fmt.Sprintf("Sprint(%s)", termsString(k.Ts))
	}
	return k.E
}

func termsString(ts []*lib.Term) string {
	var sb bytes.Buffer
	for i, t := range ts {
		if i > 0 {
			sb.WriteString(", ")
		}
		sb.WriteString(termString(t))
	}
	return sb.String()
}

func termString(t *lib.Term) string {
	switch t.K {
	case "nil":
		return "nil"
	case "int", "uint":
		return fmt.Sprintf("%s(%d)", t.K, t.N)
	case "string", "rstring", "rbytes", "bytes":
		return fmt.Sprintf("%s%v", t.K, t.B)
	case "safe":
		return "Safe(" + termString(t.Xs[0]) + ")"
	case "unsafe":
		return "Unsafe(" + termString(t.Xs[0]) + ")"
	case "obj":
		s := fmt.Sprintf("obj#%d%v", t.ID, t.Caps)
		if len(t.Pan) > 0 {
			s += "!panics"
		}
		if len(t.Scr) > 0 {
			s += "{"
			for i, op := range t.Scr {
				if i > 0 {
					s += ";"
				}
				s += op.O
				if len(op.Ts) > 0 {
					s += "(" + termsString(op.Ts) + ")"
				}
			}
			s += "}"
		}
		if len(t.FScr) > 0 {
			s += "F{"
			for i, op := range t.FScr {
				if i > 0 {
					s += ";"
				}
				s += op.O
				if len(op.Ts) > 0 {
					s += "(" + termsString(op.Ts) + ")"
				}
			}
			s += "}"
		}
		return s
	case "slice", "map", "ptrto":
		return t.K + "[" + termsString(t.Xs) + "]"
	case "struct":
		return fmt.Sprintf("struct%v{%s}", t.Ro, termsString(t.Xs))
	}
	return t.K
}

// installHook registers the error hook corresponding to Printer!HookKind.
func installHook(kind string) {
	switch kind {
	case "none":
		redact.RegisterRedactErrorFn(nil)
	case "plain":
		redact.RegisterRedactErrorFn(func(err error, p redact.SafePrinter, verb rune) {
			p.SafeString("H<")
			p.SafeRune(redact.SafeRune(verb))
			p.SafeString(":")
			p.UnsafeString(err.Error())
			p.SafeString(">")
		})
	case "print":
		redact.RegisterRedactErrorFn(func(err error, p redact.SafePrinter, verb rune) {
			p.SafeString("H<")
			p.Print(lib.PlainDict(900), redact.Safe(7))
			p.SafeString(">")
		})
	case "panic":
		redact.RegisterRedactErrorFn(func(err error, p redact.SafePrinter, verb rune) {
			p.SafeString("H<")
			panic(lib.PlainDict(903))
		})
	default:
		panic("unknown hook kind " + kind)
	}
}

// judgePrinter: the properties' own predicates on one real result (model-free).
func judgePrinter(rep *lib.Report, prop string, c *lib.Ctx, ln *printerLine, res *realResult, raw []byte) {
	is := func(p string) bool { return prop == p || prop == "ALL" }
	kase := json.RawMessage(raw)
	if (is("C01") || is("C03")) && !lib.WellFormed(res.Out) {
		rep.Violate("printer:illformed", fmt.Sprintf("%s: output %q", caseString(c, ln.C), res.Out), kase)
	}
	if is("C03") && lib.WellFormed(res.Out) && !lib.LineSafe(res.Out) {
		rep.Violate("printer:linespan", fmt.Sprintf("%s: output %q", caseString(c, ln.C), res.Out), kase)
	}
}

func init() {
	register("printer-replay", "replay MCPrinter cases on the real printer", printerReplay)
}
