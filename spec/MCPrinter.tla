------------------------------ MODULE MCPrinter ------------------------------
(***************************************************************************)
(* Enumerates printing CASES (entry point, format, operand terms) slice by *)
(* slice, runs the Printer specification on each, checks the invariants,   *)
(* and emits case + prediction for replay on the real code.                *)
(* Two levels (root -> case) so that TLC's workers share the work.         *)
(***************************************************************************)
EXTENDS Printer, TLC, Json, FiniteSets

CONSTANTS Slice, EmitOn, Routes
VARIABLES c, lvl
vars == <<c, lvl>>

Case(e, f, ts, scr) == [e |-> e, f |-> f, ts |-> ts, scr |-> scr]
NoCase == Case("none", <<>>, <<>>, <<>>)

P(id) == <<PTok + id>>                      \* an opaque non-empty plain payload
Fv == <<37, 118>>   Fs == <<37, 115>>   Fd == <<37, 100>>   Fw == <<37, 119>>   Fq == <<37, 113>>
Fx == <<37, 120>>   FT == <<37, 84>>    Fp == <<37, 112>>   FZ == <<37, 90>>
FplusV == <<37, 43, 118>>   FsharpV == <<37, 35, 118>>   F5v == <<37, 53, 118>>  Fm8d == <<37, 45, 56, 100>>
LitF(b, f) == b \o f
A == 97

Obj(id, caps) == TObj(id, caps, <<SSafeString(<<115, 102>>), SUnsafeString(P(id + 50))>>,
                      <<SWrite(<<102, 109>> \o P(id + 60))>>, P(id + 70), <<>>)

---------------------------------------------------------------------------
\* slice "smoke": hand-picked cases that touch every operator of the model once
SmokeTerms == {
  TStr(1, P(1)), TStr(1, <<A, NL, A>>), TStr(1, <<>>), TStr(1, StartM \o <<A>>), TInt(1, 42), TUint(1, 7), TBool(1), TFloat(1), TNil(1),
  TSafe(2, TStr(1, P(1))), TUnsafe(2, TStr(1, P(1))), TSafe(2, TInt(1, 5)), TUnsafe(2, TInt(1, 5)),
  TSafe(3, TUnsafe(2, TStr(1, P(1)))), TUnsafe(3, TSafe(2, TStr(1, P(1)))),
  TRStr(1, <<A>> \o StartM \o <<A>> \o EndM), TUnsafe(2, TRStr(1, <<A>> \o StartM \o <<A>> \o EndM)),
  TSlice(9, <<TInt(1, 1), TStr(2, P(2)), TNil(3)>>),
  TSlice(9, <<TSafe(2, TStr(1, P(1))), TUnsafe(4, TInt(3, 3))>>),
  TSlice(9, <<TRStr(1, StartM \o <<A>> \o EndM)>>),
  TMap(9, <<TInt(1, 1), TStr(2, P(2)), TInt(3, 2), TSafe(5, TInt(4, 9))>>),
  TStruct(9, <<TInt(1, 1), TStr(2, P(2))>>, <<FALSE, TRUE>>),
  TStruct(9, <<TSafe(2, TStr(1, P(1))), TSafe(4, TStr(3, P(3)))>>, <<FALSE, TRUE>>),
  TStruct(9, <<TNil(1), TUnsafe(3, TInt(2, 2))>>, <<TRUE, FALSE>>),
  TPtrTo(10, TStruct(9, <<TInt(1, 1)>>, <<FALSE>>)), TPtrTo(10, TSlice(9, <<TStr(1, P(1))>>)), TNilPtr(1),
  TUnsafe(10, TSlice(9, <<TSafe(2, TStr(1, P(1)))>>)), TSafe(10, TSlice(9, <<TStr(1, P(1)), TInt(2, 2)>>)),
  Obj(1, {"SF"}), Obj(1, {"SM"}), Obj(1, {"SV"}), Obj(1, {"ER"}), Obj(1, {"FM"}), Obj(1, {"GS"}), Obj(1, {"ST"}), Obj(1, {"REG"}), Obj(1, {}),
  Obj(1, {"SF", "SM", "ER", "FM", "ST"}), Obj(1, {"SM", "ER", "FM"}), Obj(1, {"ER", "ST", "GS"}), Obj(1, {"ST", "SV"}),
  Obj(1, {"ST", "NILP"}), Obj(1, {"SF", "NILP"}), Obj(1, {"ER", "REG"}),
  TUnsafe(2, Obj(1, {"SF", "ST"})), TSafe(2, Obj(1, {"ST"})), TSlice(9, <<Obj(1, {"ER"}), Obj(2, {"SF"})>>),
  TObj(1, {"ST"}, <<>>, <<>>, <<>>, <<TStr(5, P(5))>>),                      \* String() panics
  TObj(1, {"SF"}, <<SSafeString(<<A>>), SUnsafeString(P(2)), SPanic(TStr(5, P(5)))>>, <<>>, <<>>, <<>>),
  TObj(1, {"SF"}, <<SSafeString(<<A>>), SPrint(<<TStr(2, P(2)), TInt(3, 3), TSafe(5, TStr(4, P(4)))>>), SSafeInt(6, 12)>>, <<>>, <<>>, <<>>),
  TObj(1, {"SF"}, <<SPrintf(<<A>> \o Fv \o Fd, <<TStr(2, P(2)), TInt(3, 3)>>), SWrite(P(7)), SUnsafeRune(8249), SSafeRune(8250), SUnsafeByte(226), SSafeByte(A)>>, <<>>, <<>>, <<>>),
  TObj(1, {"SF"}, <<SPrint(<<TObj(2, {"ST"}, <<>>, <<>>, <<>>, <<TStr(5, P(5))>>)>>)>>, <<>>, <<>>, <<>>),
  TObj(1, {"SF"}, <<SSafeString(<<A>>), SPrint(<<TObj(2, {"SF"}, <<SPanic(TStr(5, P(5)))>>, <<>>, <<>>, <<>>)>>)>>, <<>>, <<>>, <<>>),
  TObj(1, {"ST"}, <<>>, <<>>, <<>>, <<TObj(5, {"ST"}, <<>>, <<>>, <<>>, <<TStr(6, P(6))>>)>>),      \* panic payload panics while printed
  TUnsafe(3, TObj(1, {"FM"}, <<>>, <<SDiscover, SPrintf(<<A>> \o Fd \o Fs, <<TInt(4, 1), TSafe(6, TStr(5, P(5)))>>)>>, <<>>, <<>>)),   \* F3
  TObj(1, {"FM"}, <<>>, <<SWrite(P(2)), SDiscover, SSafeString(<<A>>), SPrint(<<TInt(3, 3)>>)>>, <<>>, <<>>)
}
SmokeFormats == {Fv, Fs, Fd, FplusV, FsharpV, F5v, FT, Fq, Fw, LitF(<<A, 32>>, Fv) \o <<32, A>>, FZ, Fm8d}
SmokeRoots == SmokeTerms
SmokeExpand(t) == {Case("Sprintf", f, <<t>>, <<>>) : f \in SmokeFormats}
                  \cup {Case("Sprint", <<>>, <<t>>, <<>>), Case("Sprint", <<>>, <<TInt(90, 1), t, TStr(91, P(91)), t>>, <<>>),
                        Case("Sprintf", Fv, <<t, t>>, <<>>), Case("Sprintf", <<A>>, <<t>>, <<>>), Case("Errorf", Fw \o Fw, <<t, t>>, <<>>),
                        Case("Errorf", Fw, <<t>>, <<>>), Case("Errorf", <<A>> \o Fv, <<t>>, <<>>)}

---------------------------------------------------------------------------
\* shared vocabulary of the systematic slices

\* leaves with id i (and i+1 for an inner term): what a value can be as far as classification goes
UStr(i)   == TStr(i, P(i))
UInt(i)   == TInt(i, 3 + i)
SVObj(i)  == TObj(i, {"SV"}, <<>>, <<>>, <<>>, <<>>)
SVStr(i)  == TObj(i, {"SV", "ST"}, <<>>, <<>>, P(i), <<>>)
RegObj(i) == TObj(i, {"REG"}, <<>>, <<>>, <<>>, <<>>)
SMObj(i)  == TObj(i, {"SM"}, <<>>, <<>>, P(i), <<>>)
StObj(i)  == TObj(i, {"ST"}, <<>>, <<>>, P(i), <<>>)
ErObj(i)  == TObj(i, {"ER"}, <<>>, <<>>, P(i), <<>>)
SafeStr(i) == TSafe(i, TStr(i + 1, P(i + 1)))
SafeInt(i) == TSafe(i, TInt(i + 1, 4 + i))
Leaf(kind, i) == CASE kind = "ustr" -> UStr(i) [] kind = "uint" -> UInt(i) [] kind = "sv" -> SVObj(i)
                   [] kind = "svstr" -> SVStr(i) [] kind = "reg" -> RegObj(i) [] kind = "sm" -> SMObj(i)
                   [] kind = "st" -> StObj(i) [] kind = "er" -> ErObj(i) [] kind = "nil" -> TNil(i)
                   [] kind = "safestr" -> SafeStr(i) [] kind = "safeint" -> SafeInt(i)
                   [] kind = "bool" -> TBool(i) [] kind = "float" -> TFloat(i)
LeafKinds  == {"ustr", "uint", "sv", "svstr", "reg", "sm", "st", "er", "nil", "safestr", "safeint", "bool", "float"}
QLeafKinds == {"ustr", "uint", "sv", "reg", "nil", "safestr", "st"}

\* container shapes around two leaves a (ids 10..) and b (ids 20..); container ids 30..
Shape(sh, a, b) ==
  CASE sh = "top"     -> <<a>>
    [] sh = "two"     -> <<a, b>>
    [] sh = "slice"   -> <<TSlice(30, <<a, b>>)>>
    [] sh = "mapval"  -> <<TMap(30, <<TInt(31, 1), a, TInt(32, 2), b>>)>>
    [] sh = "mapkey"  -> <<TMap(30, <<a, TInt(31, 1)>>)>>
    [] sh = "structEE" -> <<TStruct(30, <<a, b>>, <<FALSE, FALSE>>)>>
    [] sh = "structEu" -> <<TStruct(30, <<a, b>>, <<FALSE, TRUE>>)>>
    [] sh = "ptr"     -> <<TPtrTo(33, TStruct(30, <<a, b>>, <<FALSE, TRUE>>))>>
    [] sh = "deep"    -> <<TSlice(30, <<TSlice(34, <<a>>), TStruct(35, <<b>>, <<FALSE>>)>>)>>
    [] sh = "iface"   -> <<TStruct(30, <<TSlice(34, <<a, TNil(36)>>), b>>, <<TRUE, FALSE>>)>>
Shapes  == {"top", "two", "slice", "mapval", "mapkey", "structEE", "structEu", "ptr", "deep", "iface"}
QShapes == {"top", "two", "slice", "mapval", "structEu", "deep"}

F6v == <<37, 54, 118>>   Fm6v == <<37, 45, 54, 118>>   F06d == <<37, 48, 54, 100>>  Fx2 == <<37, 120>>
Around(f) == <<A, 32>> \o f \o <<32, A>>
TwoFmt(f) == <<120, 61>> \o f \o <<32, 121, 61>> \o f                   \* "x=%v y=%v"
ClsFormats  == {Fv, FplusV, FsharpV, F6v, Fm6v, Fs, Fd, Fx, Fq, FT}
QClsFormats == {Fv, FplusV, FsharpV, F6v, Fd}

\* ---- slice "cls" (C05, C02, C16): classification of leaves at top level and inside containers
ClsRoots == [sh : IF Slice = "cls" THEN Shapes ELSE QShapes, ka : IF Slice = "cls" THEN LeafKinds ELSE QLeafKinds]
ClsExpand(r) ==
  LET kinds == IF Slice = "cls" THEN LeafKinds ELSE QLeafKinds
      fmts  == IF Slice = "cls" THEN ClsFormats ELSE QClsFormats
      kbs   == IF r.sh \in {"top", "mapkey"} THEN {"nil"} ELSE kinds
  IN UNION {
       LET ts == Shape(r.sh, Leaf(r.ka, 10), Leaf(kb, 20)) IN
         {Case("Sprintf", IF Len(ts) = 2 THEN TwoFmt(f) ELSE Around(f), ts, <<>>) : f \in fmts}
         \cup {Case("Sprint", <<>>, ts, <<>>)}
       : kb \in kbs }

\* ---- slice "wrap" (C06): Unsafe(x) / Safe(x) / nestings around every kind of x
PlainX(i) == {UStr(i), UInt(i), TNil(i), TBool(i), TSlice(i, <<UStr(i + 1), UInt(i + 2)>>),
              TStruct(i, <<UStr(i + 1), UInt(i + 2)>>, <<FALSE, TRUE>>), TMap(i, <<TInt(i + 1, 1), UStr(i + 2)>>),
              TPtrTo(i, TStruct(i + 1, <<UInt(i + 2)>>, <<FALSE>>)), StObj(i), ErObj(i),
              TObj(i, {"GS", "ST"}, <<>>, <<>>, P(i), <<>>), TObj(i, {}, <<>>, <<>>, <<>>, <<>>)}
\* values with a classification of their own (for the Unsafe side of C06)
ClassyX(i) == {SVObj(i), SVStr(i), RegObj(i), SMObj(i), SafeStr(i), TRStr(i, <<A>> \o StartM \o <<A + 1>> \o EndM),
               TSlice(i, <<SafeStr(i + 1), SVObj(i + 3), TRStr(i + 4, StartM \o <<A>> \o EndM)>>),
               TStruct(i, <<SafeStr(i + 1), RegObj(i + 3)>>, <<FALSE, TRUE>>),
               TObj(i, {"SF"}, <<SSafeString(P(600)), SUnsafeString(P(700)), SSafeInt(i + 1, 5)>>, <<>>, <<>>, <<>>),
               TObj(i, {"SF", "ST"}, <<SPrint(<<SafeStr(i + 1), UStr(i + 3)>>), SWrite(P(701))>>, <<>>, P(i), <<>>),
               TObj(i, {"SF", "FM"}, <<SPrintf(<<A>> \o Fv \o Fd, <<SafeStr(i + 1), UInt(i + 3)>>)>>, <<SWrite(P(702))>>, <<>>, <<>>),
               TObj(i, {"FM"}, <<>>, <<SWrite(P(702)), SDiscover, SSafeString(P(601)), SUnsafeString(P(703))>>, <<>>, <<>>),
               TObj(i, {"FM"}, <<>>, <<SDiscover, SPrint(<<SafeStr(i + 1), UStr(i + 3)>>)>>, <<>>, <<>>),               \* F3
               TObj(i, {"FM"}, <<>>, <<SDiscover, SPrintf(<<A>> \o Fd \o Fs, <<UInt(i + 1), SafeStr(i + 3)>>)>>, <<>>, <<>>), \* F3
               TObj(i, {"ER", "SV"}, <<>>, <<>>, P(i), <<>>)}
WrapKinds == {"U", "S", "US", "SU", "UUS", "SSU", "USU", "inU", "inS"}
Wrapped(w, x) ==
  CASE w = "U"   -> TUnsafe(51, x)
    [] w = "S"   -> TSafe(51, x)
    [] w = "US"  -> TUnsafe(52, TSafe(51, x))
    [] w = "SU"  -> TSafe(52, TUnsafe(51, x))
    [] w = "UUS" -> TUnsafe(53, TUnsafe(52, TSafe(51, x)))
    [] w = "SSU" -> TSafe(53, TSafe(52, TUnsafe(51, x)))
    [] w = "USU" -> TUnsafe(53, TSafe(52, TUnsafe(51, x)))
    [] w = "inU" -> TUnsafe(53, TSlice(52, <<x, TSafe(54, TInt(55, 9))>>))
    [] w = "inS" -> TSafe(53, TSlice(52, <<x, TUnsafe(54, TInt(55, 9))>>))
WrapFormats == {Fv, Fs, Fd, FplusV, FsharpV, Fq, Fx, F6v, FT}
WrapRoots == (PlainX(60) \cup ClassyX(60)) \X WrapKinds
WrapExpand(r) == {Case("Sprintf", Around(f), <<Wrapped(r[2], r[1])>>, <<>>) : f \in WrapFormats}
                 \cup {Case("Sprint", <<>>, <<Wrapped(r[2], r[1])>>, <<>>)}

\* ---- slice "bytes" (C01, C03): concrete payload bytes in every position that reaches the buffer
A6 == {226, 128, 185, 186, 97, 10}
Pay(nmax) == UNION {[1..k -> A6] : k \in 0..nmax}
BytePos(p, q) == {
  <<Fv \o Fv, <<TStr(1, p), TStr(2, q)>>>>, <<Fs \o <<A>> \o Fv, <<TStr(1, p), TSafe(3, TStr(2, q))>>>>,
  <<p \o Fv \o q, <<TStr(1, <<A>>)>>>>, <<p \o Fv \o q, <<TUnsafe(2, TStr(1, <<A>>))>>>>,
  <<Fv, <<TSlice(3, <<TStr(1, p), TStr(2, q)>>)>>>>,
  <<Fv, <<TObj(1, {"ST"}, <<>>, <<>>, p, <<>>)>>>>, <<Fv \o Fv, <<TObj(1, {"ER"}, <<>>, <<>>, p, <<>>), TObj(2, {"SM"}, <<>>, <<>>, q, <<>>)>>>>,
  <<Fv, <<TObj(1, {"SF"}, <<SSafeString(p), SUnsafeString(q), SSafeString(p)>>, <<>>, <<>>, <<>>)>>>>,
  <<Fv, <<TObj(1, {"SF"}, <<SUnsafeString(p), SWrite(q), SPrint(<<TStr(2, p)>>)>>, <<>>, <<>>, <<>>)>>>>,
  <<Fv, <<TObj(1, {"FM"}, <<>>, <<SWrite(p), SWrite(q)>>, <<>>, <<>>)>>>>,
  <<Fv \o q, <<TObj(1, {"ST"}, <<>>, <<>>, <<>>, <<TStr(2, p)>>)>>>>,
  <<Fd \o q, <<TStr(1, p)>>>>, <<Fv, <<TStr(1, p), TStr(2, q)>>>>,
  <<Fv, <<TMap(3, <<TStr(1, p), TStr(2, q)>>)>>>>, <<FplusV, <<TStruct(3, <<TStr(1, p), TStr(2, q)>>, <<FALSE, TRUE>>)>>>>,
  <<Fv \o Fv, <<TRStr(1, StartM \o <<A>> \o EndM), TStr(2, p)>>>>, <<Fv \o Fv, <<TStr(2, p), TRStr(1, StartM \o <<A>> \o EndM \o <<NL>>)>>>>
}
BytesRoots == Pay(IF Slice = "bytes" THEN 2 ELSE 1)
BytesExpand(p) == UNION {{Case("Sprintf", x[1], x[2], <<>>) : x \in BytePos(p, q)} : q \in Pay(IF Slice = "bytes" THEN 2 ELSE 1)}

\* ---- slice "panic" (C11): user methods that panic at every point, every payload kind, every context
PanPayloads == {TStr(80, P(80)), TInt(80, 8), ErObj(80), TObj(80, {"ST"}, <<>>, <<>>, <<>>, <<TStr(81, P(81))>>),
                TObj(80, {"SF"}, <<SUnsafeString(P(82))>>, <<>>, <<>>, <<>>), TSafe(83, TStr(80, P(80)))}
PanObjs(pl) == {
  TObj(1, {"ST"}, <<>>, <<>>, <<>>, <<pl>>), TObj(1, {"ER"}, <<>>, <<>>, <<>>, <<pl>>), TObj(1, {"GS", "ST"}, <<>>, <<>>, <<>>, <<pl>>),
  TObj(1, {"SM"}, <<>>, <<>>, <<>>, <<pl>>), TObj(1, {"SV", "ST"}, <<>>, <<>>, <<>>, <<pl>>),
  TObj(1, {"SF"}, <<SPanic(pl)>>, <<>>, <<>>, <<>>),
  TObj(1, {"SF"}, <<SSafeString(P(600)), SPanic(pl)>>, <<>>, <<>>, <<>>),
  TObj(1, {"SF"}, <<SSafeString(P(600)), SUnsafeString(P(700)), SPanic(pl), SSafeString(P(601))>>, <<>>, <<>>, <<>>),
  TObj(1, {"SF"}, <<SUnsafeString(P(700)), SPrint(<<UStr(2)>>), SPanic(pl)>>, <<>>, <<>>, <<>>),
  TObj(1, {"SF"}, <<SSafeString(P(600)), SPrint(<<TObj(2, {"SF"}, <<SUnsafeString(P(701)), SPanic(pl)>>, <<>>, <<>>, <<>>)>>), SSafeString(P(601))>>, <<>>, <<>>, <<>>),
  TObj(1, {"SF"}, <<SPrintf(<<A>> \o Fv, <<TObj(2, {"ST"}, <<>>, <<>>, <<>>, <<pl>>)>>), SSafeString(P(601))>>, <<>>, <<>>, <<>>),
  TObj(1, {"FM"}, <<>>, <<SWrite(P(702)), SPanic(pl)>>, <<>>, <<>>),
  TObj(1, {"FM"}, <<>>, <<SDiscover, SSafeString(P(600)), SPanic(pl)>>, <<>>, <<>>),
  TObj(1, {"ST", "NILP"}, <<>>, <<>>, <<>>, <<>>), TObj(1, {"SF", "NILP"}, <<>>, <<>>, <<>>, <<>>), TObj(1, {"ER", "FM", "NILP"}, <<>>, <<>>, <<>>, <<>>)
}
PanCtx(o) == {<<o>>, <<TSafe(90, o)>>, <<TUnsafe(90, o)>>, <<TSlice(91, <<UInt(92), o, UStr(93)>>)>>,
              <<TStruct(91, <<o, UStr(93)>>, <<FALSE, TRUE>>)>>, <<TStruct(91, <<UStr(93), o>>, <<FALSE, TRUE>>)>>}
PanicRoots == PanPayloads
PanicExpand(pl) == UNION {UNION {{Case("Sprintf", Around(f), ts, <<>>) : f \in {Fv, Fd, FsharpV, F6v}}
                                  \cup {Case("Sprint", <<>>, <<UInt(95)>> \o ts \o <<UStr(96)>>, <<>>)}
                                 : ts \in PanCtx(o)} : o \in PanObjs(pl)}

\* ---- slice "errorf" (C15): HelperForErrorf with 0..3 %w directives and every operand class
FwIdx1 == <<37, 91, 49, 93, 119>>   FwIdx2 == <<37, 91, 50, 93, 119>>   F5w == <<37, 53, 119>>
FplusW == <<37, 43, 119>>           FsharpW == <<37, 35, 119>>          Fcolon == <<58>>
ErrDirs  == {Fw, Fv, Fd, FwIdx1, FwIdx2, F5w, FplusW, FsharpW}
ErrDirs2 == {Fw, Fv, FwIdx1, F5w}
ErrFormats == ErrDirs \cup {x \o Fcolon \o y : x \in ErrDirs, y \in ErrDirs}
              \cup {x \o Fcolon \o y \o Fcolon \o z : x \in {Fw, Fv}, y \in {Fw, Fv}, z \in {Fw, Fv}}
QErrFormats == ErrDirs2 \cup {x \o Fcolon \o y : x \in ErrDirs2, y \in ErrDirs2} \cup {Fw \o Fw \o Fw, FsharpW, FplusW}
ErrOperand(kind, i) ==
  CASE kind = "er"     -> ErObj(i)
    [] kind = "erfm"   -> TObj(i, {"ER", "FM"}, <<>>, <<SWrite(P(i + 5))>>, P(i), <<>>)
    [] kind = "ersf"   -> TObj(i, {"ER", "SF"}, <<SSafeString(P(600 + i)), SUnsafeString(P(700 + i))>>, <<>>, P(i), <<>>)
    [] kind = "safe"   -> TSafe(i, ErObj(i + 1))
    [] kind = "unsafe" -> TUnsafe(i, ErObj(i + 1))
    [] kind = "ernil"  -> TObj(i, {"ER", "NILP"}, <<>>, <<>>, <<>>, <<>>)
    [] kind = "nil"    -> TNil(i)
    [] kind = "int"    -> UInt(i)
    [] kind = "str"    -> UStr(i)
    [] kind = "st"     -> StObj(i)
    [] kind = "erpan"  -> TObj(i, {"ER"}, <<>>, <<>>, <<>>, <<TStr(i + 1, P(i + 1))>>)
ErrKinds  == {"er", "erfm", "ersf", "safe", "unsafe", "ernil", "nil", "int", "str", "st", "erpan"}
QErrKinds == {"er", "erfm", "safe", "unsafe", "nil", "int", "str"}
ErrRoots == LET ks == IF Slice = "errorf" THEN ErrKinds ELSE QErrKinds IN
            {<<>>} \cup {<<ErrOperand(k1, 10)>> : k1 \in ks} \cup {<<ErrOperand(k1, 10), ErrOperand(k2, 20)>> : k1 \in ks, k2 \in ks}
ErrExpand(ts) == {Case("Errorf", f, ts, <<>>) : f \in (IF Slice = "errorf" THEN ErrFormats ELSE QErrFormats)}

\* ---- slice "hook" (C17): error operands of every capability mix in every position, with a hook installed
HookErr(kind, i) ==
  CASE kind = "er"    -> ErObj(i)
    [] kind = "erst"  -> TObj(i, {"ER", "ST"}, <<>>, <<>>, P(i), <<>>)
    [] kind = "erfm"  -> TObj(i, {"ER", "FM"}, <<>>, <<SWrite(P(i + 5))>>, P(i), <<>>)
    [] kind = "ersf"  -> TObj(i, {"ER", "SF"}, <<SSafeString(P(600 + i)), SUnsafeString(P(700 + i))>>, <<>>, P(i), <<>>)
    [] kind = "ersm"  -> TObj(i, {"ER", "SM"}, <<>>, <<>>, P(i), <<>>)
    [] kind = "ergs"  -> TObj(i, {"ER", "GS"}, <<>>, <<>>, P(i), <<>>)
    [] kind = "ersv"  -> TObj(i, {"ER", "SV"}, <<>>, <<>>, P(i), <<>>)
    [] kind = "erreg" -> TObj(i, {"ER", "REG"}, <<>>, <<>>, P(i), <<>>)
    [] kind = "ernil" -> TObj(i, {"ER", "NILP"}, <<>>, <<>>, <<>>, <<>>)
    [] kind = "erpan" -> TObj(i, {"ER"}, <<>>, <<>>, <<>>, <<TStr(i + 1, P(i + 1))>>)
    [] kind = "st"    -> StObj(i)
HookKinds == {"er", "erst", "erfm", "ersf", "ersm", "ergs", "ersv", "erreg", "ernil", "erpan", "st"}
HookPos(pos, e) ==
  CASE pos = "top"     -> <<e>>
    [] pos = "safe"    -> <<TSafe(40, e)>>
    [] pos = "unsafe"  -> <<TUnsafe(40, e)>>
    [] pos = "slice"   -> <<TSlice(40, <<UInt(41), e>>)>>
    [] pos = "mapval"  -> <<TMap(40, <<TInt(41, 1), e>>)>>
    [] pos = "mapkey"  -> <<TMap(40, <<e, UInt(41)>>)>>
    [] pos = "fieldE"  -> <<TStruct(40, <<e, UInt(41)>>, <<FALSE, FALSE>>)>>
    [] pos = "fieldu"  -> <<TStruct(40, <<UInt(41), e>>, <<FALSE, TRUE>>)>>
    [] pos = "ptr"     -> <<TPtrTo(42, TStruct(40, <<e>>, <<FALSE>>))>>
    [] pos = "inUnsafe" -> <<TUnsafe(43, TSlice(40, <<e>>))>>
HookPositions == {"top", "safe", "unsafe", "slice", "mapval", "mapkey", "fieldE", "fieldu", "ptr", "inUnsafe"}
HookRoots == HookKinds \X HookPositions
HookExpand(r) == LET ts == HookPos(r[2], HookErr(r[1], 10)) IN
                 {Case("Sprintf", Around(f), ts, <<>>) : f \in {Fv, Fs, Fd, Fq, Fx, FplusV, FsharpV, F6v}}
                 \cup {Case("Sprint", <<>>, ts, <<>>), Case("Errorf", Around(Fw), ts, <<>>), Case("Errorf", Fw \o Fw, ts \o ts, <<>>)}

\* ---- slice "compose" (C08): redactables obtained from the library, printed again, concatenated, joined
F5q == <<37, 53, 113>>   Fm8x == <<37, 45, 56, 120>>   Fp1s == <<37, 46, 49, 115>>
ComposeFormats == {Fv, Fs, F5q, Fm8x, Fp1s, Fd, FplusV}
KeyR == TRStr(3, <<107>>)                                      \* the redactable "k"
RShape(sh, r) ==
  CASE sh = "top"     -> r
    [] sh = "slice"   -> TSlice(30, <<r>>)
    [] sh = "mapval"  -> TMap(30, <<KeyR, r>>)
    [] sh = "structE" -> TStruct(30, <<r>>, <<FALSE>>)
    [] sh = "structu" -> TStruct(30, <<r>>, <<TRUE>>)
    [] sh = "ptr"     -> TPtrTo(33, TStruct(30, <<r>>, <<FALSE>>))
    [] sh = "deep"    -> TStruct(30, <<TSlice(34, <<r>>)>>, <<TRUE>>)
RShapes == {"top", "slice", "mapval", "structE", "structu", "ptr", "deep"}
\* what the statement says the reprint is: the punctuation of the shape around the unchanged redactable
RWrap(sh, b, plus) ==
  CASE sh = "top"     -> b
    [] sh = "slice"   -> <<91>> \o b \o <<93>>
    [] sh = "mapval"  -> MapOpen \o <<107, 58>> \o b \o <<93>>
    [] sh = "structE" -> <<123>> \o (IF plus THEN <<65, 58>> ELSE <<>>) \o b \o <<125>>
    [] sh = "structu" -> <<123>> \o (IF plus THEN <<97, 58>> ELSE <<>>) \o b \o <<125>>
    [] sh = "ptr"     -> <<38, 123>> \o (IF plus THEN <<65, 58>> ELSE <<>>) \o b \o <<125>>
    [] sh = "deep"    -> <<123>> \o (IF plus THEN <<97, 58>> ELSE <<>>) \o <<91>> \o b \o <<93, 125>>
R0(p) == Out(Sprint(<<TStr(1, p)>>))                             \* a redactable obtained from the library
JoinOf(d, a, b) == Out(SBRun(<<SPrint(<<TRStr(4, a)>>), SPrint(<<TRStr(5, d)>>), SPrint(<<TRStr(6, b)>>)>>))     \* redact.Join
ComposeRoots == Pay(IF Slice = "compose" THEN 2 ELSE 1)
ComposeDelims == {<<44>>, StartM \o <<44>> \o EndM, <<NL>>}
ComposeExpand(p) ==
  LET r == R0(p) IN
  {Case("Sprintf", f, <<RShape(sh, TRStr(2, r))>>, <<>>) : f \in ComposeFormats, sh \in RShapes}
  \cup {Case("Sprintf", Fv, <<RShape(sh, TRBytes(2, r))>>, <<>>) : sh \in RShapes}
  \cup {Case("Sprint", <<>>, <<TRStr(2, r)>>, <<>>)}
  \cup UNION {{Case("Sprintf", <<120>> \o Fv \o <<121>> \o Fs \o <<122>>, <<TRStr(2, r), TRStr(7, R0(q))>>, <<>>),
               Case("Sprint", <<>>, <<TRStr(2, JoinOf(d, r, R0(q)))>>, <<>>),
               Case("Sprintf", F5q, <<TSlice(30, <<TRStr(2, JoinOf(d, r, R0(q))), TRStr(7, r)>>)>>, <<>>)}
              : q \in {<<>>, <<A>>, <<NL>>, StartM, <<A, 226>>}, d \in ComposeDelims}

Roots     == CASE Slice = "smoke" -> SmokeRoots
               [] Slice \in {"cls", "qcls"} -> ClsRoots
               [] Slice = "wrap" -> WrapRoots
               [] Slice \in {"bytes", "qbytes"} -> BytesRoots
               [] Slice = "panic" -> PanicRoots
               [] Slice \in {"errorf", "qerrorf"} -> ErrRoots
               [] Slice = "hook" -> HookRoots
               [] Slice \in {"compose", "qcompose"} -> ComposeRoots
Expand(r) == CASE Slice = "smoke" -> SmokeExpand(r)
               [] Slice \in {"cls", "qcls"} -> ClsExpand(r)
               [] Slice = "wrap" -> WrapExpand(r)
               [] Slice \in {"bytes", "qbytes"} -> BytesExpand(r)
               [] Slice = "panic" -> PanicExpand(r)
               [] Slice \in {"errorf", "qerrorf"} -> ErrExpand(r)
               [] Slice = "hook" -> HookExpand(r)
               [] Slice \in {"compose", "qcompose"} -> ComposeExpand(r)

---------------------------------------------------------------------------
VARIABLE root
allvars == <<c, lvl, root>>

Init == lvl = 0 /\ c = NoCase /\ root \in Roots
Next == lvl = 0 /\ lvl' = 1 /\ root' = root /\ c' \in Expand(root)
Spec == Init /\ [][Next]_allvars

\* the same argument list through the other three routes of C16
RouteOp(k)  == IF k.e = "Sprint" THEN SPrint(k.ts) ELSE SPrintf(k.f, k.ts)
RouteSB(k)  == SBRun(<<RouteOp(k)>>)                                              \* StringBuilder.Print / Printf
RouteFn(k)  == Sprintfn(<<RouteOp(k)>>)                                           \* SafePrinter inside Sprintfn
RouteSF(k)  == Sprint(<<TObj(990, {"SF"}, <<RouteOp(k)>>, <<>>, <<>>, <<>>)>>)    \* SafePrinter inside a SafeFormat method
C16Holds(k, r) ==
  (k.e \in {"Sprint", "Sprintf"}) =>
    LET sb == RouteSB(k)  fn == RouteFn(k)  sf == RouteSF(k) IN
    \* (an argument list whose printing panics out of Sprint is outside: inside a SafeFormat method the
    \*  same panic meets one more catchPanic and is reported instead of propagating)
    ~Exc(r) => /\ ~Exc(sb) /\ ~Exc(fn) /\ ~Exc(sf)
                  /\ NormOf(Out(sb)) = NormOf(Out(r))
                  /\ NormOf(Out(fn)) = NormOf(Out(r))
                  /\ NormOf(Out(sf)) = NormOf(Out(r))

Run(k) == CASE k.e = "Sprintf"  -> Sprintf(k.f, k.ts)
            [] k.e = "Sprint"   -> Sprint(k.ts)
            [] k.e = "Errorf"   -> Errorf(k.f, k.ts)
            [] k.e = "Sprintfn" -> Sprintfn(k.scr)

(***************************************************************************)
(* The STATEMENT-level classification, independent of modes, overrides     *)
(* and restorers: an inherited attribute walked down the operand term.     *)
(* Ctxs(t, inh, ro) = set of <<id, ctx>>: under which declaration the      *)
(* renderings of term id stand ("safe", "unsafe", "none").                 *)
(***************************************************************************)
RECURSIVE Ctxs(_, _, _)
Ctxs(t, inh, ro) ==
  LET own == IF inh # "none" THEN inh                                   \* the outermost declaration wins
             ELSE CASE t.k = "unsafe" -> "unsafe"
                    [] t.k = "safe"   -> "safe"
                    [] t.k = "obj" /\ "REG" \in t.caps /\ "NILP" \notin t.caps -> "safe"
                    [] t.k = "obj" /\ "SV" \in t.caps /\ ~ro -> "safe"      \* O6: not seen behind an unexported field
                    [] OTHER -> "none"
      kids == IF t.k = "struct" THEN UNION {Ctxs(t.xs[i], own, ro \/ t.ro[i]) : i \in 1..Len(t.xs)}
              ELSE UNION {Ctxs(t.xs[i], own, ro) : i \in 1..Len(t.xs)}
  IN {<<t.id, own>>} \cup kids

RECURSIVE SubTerms(_)
SubTerms(t) == {t} \cup UNION {SubTerms(t.xs[i]) : i \in 1..Len(t.xs)}

CtxMap(ts)  == UNION {Ctxs(ts[i], "none", FALSE) : i \in 1..Len(ts)}
AllTerms(ts) == UNION {SubTerms(ts[i]) : i \in 1..Len(ts)}
CtxOfId(ts, id)  == LET m == {x \in CtxMap(ts) : x[1] = id} IN IF m = {} THEN "none" ELSE (CHOOSE x \in m : TRUE)[2]
TermOfId(ts, id) == LET m == {x \in AllTerms(ts) : x.id = id} IN IF m = {} THEN T0 ELSE CHOOSE x \in m : TRUE

\* declared class of one token of the output
DeclClass(ts, role, id) ==
  LET cx == CtxOfId(ts, id)  t == TermOfId(ts, id) IN
  CASE cx = "unsafe" -> "U"
    [] cx = "safe"   -> "S"
    [] OTHER -> IF role \in {"typename", "typefmt", "ifacetype"} \/ t.k = "nil" THEN "S"    \* names and <nil> are structure
                ELSE IF role = "ret" /\ t.k = "obj" /\ "SM" \in t.caps /\ "SF" \notin t.caps THEN "S"   \* SafeMessage text
                ELSE "U"
TokClass(ts, rt, x) ==
  IF x >= PTok THEN LET t == TermOfId(ts, x - PTok) IN DeclClass(ts, IF t.k = "string" THEN "val" ELSE "ret", x - PTok)
  ELSE LET e == rt[x - RTok] IN DeclClass(ts, e.rk, e.id)

HasUnsafeWrapper(ts) == \E t \in AllTerms(ts) : t.k = "unsafe"

\* C05: deleting the envelopes leaves all structure and exactly the declared-safe renderings
C05Holds(k, r) ==
  LET out == Out(r) IN
  DeleteEnvelopes(out) = SelectSeq(Strip(out), LAMBDA x : ~IsTok(x) \/ TokClass(k.ts, r.rt, x) = "S")

\* C06 on the slice "wrap": root = <<x, wrapper nesting>>
Outermost(w) == IF w \in {"U", "US", "UUS", "USU", "inU"} THEN "U" ELSE "S"
C06Holds(k, r) ==
  LET out == Out(r) IN
  IF Outermost(root[2]) = "U"
  THEN DeleteEnvelopes(out) = (IF k.e = "Sprintf" THEN <<A, 32, 32, A>> ELSE <<>>)      \* everything of the operand is enveloped
  ELSE root[1] \in PlainX(60) => ~HasMarker(out)                                        \* nothing of it is

\* C11 on the slice "panic": contained, reported in place, text around intact
PanicReport == PercentBang
C11Holds(k, r) ==
  LET propagates == \* only a panic raised while printing the panic payload may propagate
        \E t \in PanObjs(root) : \E u \in {root} : u.k = "obj" /\ (u.pan # <<>> \/ \E i \in 1..Len(u.scr) : u.scr[i].o = "Panic")
  IN IF Exc(r) THEN propagates
     ELSE LET s == Strip(Out(r)) IN
          k.e = "Sprintf" => (HasPrefix(s, <<A, 32>>) /\ HasSuffix(s, <<32, A>>))

\* C15 on the slice "errorf"
RECURSIVE CountW(_)
CountW(f) == IF f = <<>> THEN 0 ELSE (IF Head(f) = VW THEN 1 ELSE 0) + CountW(Tail(f))
HoldsError(t) == IsError(t) \/ (t.k \in {"safe", "unsafe"} /\ IsError(t.xs[1]))
ErrIdOf(t)    == IF t.k \in {"safe", "unsafe"} THEN t.xs[1].id ELSE t.id
\* the operand the single %w directive is applied to, 0 if it is missing / out of range
WOperand(k) == LET its == ParseFormat(k.f, ArgInfo(k.ts))
                   ws  == SelectSeq(its, LAMBDA it : it.t = "Arg" /\ it.v = VW)
               IN IF Len(ws) = 1 THEN ws[1].a + 1 ELSE 0
C15Expected(k) == IF CountW(k.f) = 1 /\ WOperand(k) # 0 /\ HoldsError(k.ts[WOperand(k)])
                  THEN ErrIdOf(k.ts[WOperand(k)]) ELSE 0
\* F4 (known finding): with several %w, a surplus %w on an operand that never reaches handleMethods
\* (basic kinds, nil, MISSING, BADINDEX) does not disable the capture
F4Class(k, r) == CountW(k.f) >= 2 /\ r.wrappedErr # 0
C15Holds(k, r) == r.wrappedErr = C15Expected(k) \/ F4Class(k, r)

\* C17 on the slice "hook": the hook renders exactly the error operands the statement names
HookCalls(r) == SelectSeq(r.calls, LAMBDA x : x.m = "Hook")
C17Holds(k, r) ==
  LET e == HookErr(root[1], 10)
      dispatched == /\ HookKind # "none"
                    /\ IsError(e) /\ "SF" \notin e.caps /\ "SM" \notin e.caps /\ "NILP" \notin e.caps
                    /\ root[2] \notin {"unsafe", "inUnsafe", "fieldu"}
                    \* %w on an operand that is not itself the error is a bad verb, whose inner rendering
                    \* (erroring) involves no method dispatch
                    /\ (k.e = "Errorf" => root[2] \in {"top", "safe"})
      hc == HookCalls(r)
  IN IF dispatched
     THEN /\ Len(hc) >= 1 /\ \A i \in 1..Len(hc) : hc[i].id = e.id
          \* ... and the error's own methods render nothing unless the hook asks for them
          /\ \A i \in 1..Len(r.calls) : r.calls[i].m \in {"Hook", "Error"}
     ELSE \A i \in 1..Len(hc) : FALSE

\* C08 on the slice "compose"
C08Holds(k, r) ==
  LET out == Out(r)  r0 == R0(root) IN
  /\ WellFormed(out) /\ LineSafe(out)                                   \* closure: still a redactable
  \* re-printing is identity, whatever the verb, flags and container
  /\ \A sh \in RShapes :
        (Len(k.ts) = 1 /\ k.e = "Sprintf" /\ k.ts[1] \in {RShape(sh, TRStr(2, r0)), RShape(sh, TRBytes(2, r0))})
          => out = RWrap(sh, r0, k.f = FplusV)
  /\ (Len(k.ts) = 1 /\ k.ts[1].k = "slice" /\ Len(k.ts[1].xs) = 2) =>
        out = <<91>> \o k.ts[1].xs[1].b \o <<SP>> \o k.ts[1].xs[2].b \o <<93>>
  /\ (Len(k.ts) = 1 /\ k.e = "Sprint" /\ k.ts[1].k = "rstring") =>
        /\ out = k.ts[1].b                                               \* Sprint(Sprint(a)) = Sprint(a), joined ones too
        /\ Redact(out) = Redact(k.ts[1].b)
  \* formatting several redactables = concatenation with the literals
  /\ (Len(k.ts) = 2) => /\ out = <<120>> \o k.ts[1].b \o <<121>> \o k.ts[2].b \o <<122>>
                        /\ Redact(out) = <<120>> \o Redact(k.ts[1].b) \o <<121>> \o Redact(k.ts[2].b) \o <<122>>
                        /\ (ValidUTF8(out) => Strip(out) = <<120>> \o Strip(k.ts[1].b) \o <<121>> \o Strip(k.ts[2].b) \o <<122>>)
\* Join = plain concatenation with the delimiter (checked where the joined value is built)
C08Join(d, a, b) == JoinOf(d, a, b) = a \o d \o b

(***************************************************************************)
(* ONE zero-arity definition refers to the printer operators: TLC's        *)
(* start-up level analysis costs several seconds for each such definition. *)
(* Check evaluates the selected invariants on the result of the case and   *)
(* prints case + prediction for the replayer.                              *)
(***************************************************************************)
Holds(name, cond) == IF cond THEN TRUE ELSE PrintT(<<"INVARIANT-FAILED", name, c>>) /\ FALSE

Check == lvl = 1 =>
  LET r == Run(c)  ok == ~Exc(r) IN
  \* C01 / C03 at the model level: whatever is returned is a well-formed, line-safe redactable
  /\ Holds("WellFormed", ok => (WellFormed(Out(r)) /\ LineSafe(Out(r))))
  \* restorer discipline: a top-level call ends with no override and clean flags
  /\ Holds("Restored", ok => (r.ov = "none" /\ ~r.erroring /\ ~r.panicking))
  /\ Holds("C05", (ok /\ Slice \in {"cls", "qcls"}) => C05Holds(c, r))
  /\ Holds("C06", (ok /\ Slice = "wrap") => C06Holds(c, r))
  /\ Holds("C11", (Slice = "panic") => C11Holds(c, r))
  /\ Holds("C15", (ok /\ Slice \in {"errorf", "qerrorf"}) => C15Holds(c, r))
  /\ Holds("C17", (ok /\ Slice = "hook") => C17Holds(c, r))
  /\ Holds("C16", Routes => C16Holds(c, r))
  /\ Holds("C08", (ok /\ Slice \in {"compose", "qcompose"}) => C08Holds(c, r))
  /\ Holds("C08join", (Slice \in {"compose", "qcompose"} /\ c.e = "Sprint" /\ c.ts[1].id = 2 /\ Len(c.ts[1].b) = 0) =>
              \A d \in ComposeDelims : \A q \in {<<>>, <<NL>>, StartM, <<A, 226>>} : C08Join(d, R0(root), R0(q)))
  /\ (EmitOn => PrintT(ToJson([c |-> c, exc |-> ~ok, out |-> IF ok THEN Out(r) ELSE <<>>, rt |-> r.rt,
                                calls |-> r.calls, werr |-> r.wrappedErr])))
=============================================================================
