package main

import (
	"encoding/json"
	"flag"
	"fmt"
	"strings"

	"github.com/cockroachdb/redact"
	"github.com/cockroachdb/redact/internal/buffer"
	"github.com/cockroachdb/redact/verifharness/lib"
)

// builder-drive (C13 on builder.StringBuilder): every sequence of at most -len operations over
// {SafeString, UnsafeString (payloads of equal and of different lengths), Print, Reset, TakeRedactableString,
// TakeRedactableBytes, and the accessors RedactableString / RedactableBytes / String / Len}.  After every
// sequence (judged at its end only, so that no accessor call of the judge sits between the operations; every prefix
// is a sequence of its own) the builder must show exactly what a NEW builder shows after the writes since the last Reset/Take
// (accessors are pure, Reset/Take give a pristine object), Len must be the length of RedactableString, and
// what Take returned must stay what it was.

type bdOp struct {
	O string `json:"o"`
	P string `json:"p"`
}

type bdCase struct {
	Kind string `json:"kind"`
	Ops  []bdOp `json:"ops"`
}

var bdAlphabet = []bdOp{
	{"S", "user="}, {"U", "alice"}, {"U", "carol"}, {"U", "x\n"}, {"U", ""}, {"P", "bobby"}, {"S", "‹"},
	{"RST", ""}, {"TKS", ""}, {"TKB", ""}, {"RS", ""}, {"RB", ""}, {"STR", ""}, {"LEN", ""},
	// "echo": a safe string exactly as long as the builder's content was after the first / the last write of the epoch
	// before the last Reset / Take -- anything remembered about the old content by its LENGTH (an offset cached for a
	// fast path) meets the same length again in the new epoch
	{"EF", ""}, {"EL", ""},
	// a pre-redacted operand as a caller can make one (a lone closing marker): not a redactable, but Reset and Take still
	// have to leave an object that behaves like a new one (F11: Take left the envelope flag set)
	{"PR", "\u203a"},
	// unsafe data that starts with a run of line feeds (the escaper moves the opening marker behind the run)
	{"U", "\n\n\nzed"},
}

func bdApplyWrite(sb *redact.StringBuilder, o bdOp) {
	switch o.O {
	case "S":
		sb.SafeString(redact.SafeString(o.P))
	case "U":
		sb.UnsafeString(o.P)
	case "P":
		sb.Print(o.P, 7)
	case "PR":
		sb.Print(redact.RedactableString(o.P))
	case "PSV":
		// the builder (by value) among its own operands, after an unsafe one
		sb.Print(o.P, *sb)
	case "PSP":
		sb.Printf("%v %v", o.P, sb)
	case "PSN":
		// ... and nested in another operand
		sb.Print(o.P, []interface{}{sb})
	case "PX":
		// a panic that crosses Print (a Stringer whose panic value panics again while it is printed); the caller recovers
		// and keeps the builder
		func() {
			defer func() { _ = recover() }()
			sb.Print(o.P, bdEvil{})
		}()
	case "FX":
		// a foreign call: something else in the process prints (and escapes) in between; not a write to this builder
		_ = redact.Sprint("foreign\ntext \u2039 "+o.P, 1)
		var other redact.StringBuilder
		other.UnsafeString(strings.Repeat("f", 300) + "\n" + o.P)
		_ = other.RedactableString()
	}
}

type bdEvilErr struct{}

func (bdEvilErr) Error() string { panic("again") }

type bdEvil struct{}

func (bdEvil) String() string { panic(bdEvilErr{}) }

// usesRaw: the history hands the builder a pre-redacted operand made by the caller (not a redactable: outside C01 / C03)
func usesRaw(ops []bdOp) bool {
	for _, o := range ops {
		if o.O == "PR" {
			return true
		}
	}
	return false
}

func judgeBuilder(rep *lib.Report, k bdCase) {
	var sb redact.StringBuilder
	var since []bdOp // writes since the last Reset / Take
	type taken struct {
		s    redact.RedactableString
		copy string
	}
	var kept []taken
	echoF, echoL := 0, 0 // finalized lengths after the first / last write of the previous epoch (computed on builders of their own)
	usesEcho := false
	for _, o := range k.Ops {
		if o.O == "EF" || o.O == "EL" {
			usesEcho = true
		}
	}
	epochEnds := func() {
		if !usesEcho {
			return // (no library call of the judge's own between the operations unless the sequence needs the lengths)
		}
		echoF, echoL = 0, 0
		var fb redact.StringBuilder
		for j, w := range since {
			bdApplyWrite(&fb, w)
			if j == 0 {
				echoF = len(fb.RedactableString())
			}
		}
		echoL = len(fb.RedactableString())
	}
	desc := func(i int) string {
		var parts []string
		for _, o := range k.Ops[:i+1] {
			parts = append(parts, fmt.Sprintf("%s(%q)", o.O, o.P))
		}
		return strings.Join(parts, "; ")
	}
	for i, o := range k.Ops {
		switch o.O {
		case "EF", "EL":
			n := echoF
			if o.O == "EL" {
				n = echoL
			}
			o = bdOp{"S", strings.Repeat("e", n)}
			bdApplyWrite(&sb, o)
			since = append(since, o)
		case "S", "U", "P", "PR", "PSV", "PSP", "PSN", "PX":
			bdApplyWrite(&sb, o)
			since = append(since, o)
		case "RST":
			epochEnds()
			sb.Reset()
			since = nil
		case "TKS":
			epochEnds()
			r := sb.TakeRedactableString()
			kept = append(kept, taken{r, string(append([]byte(nil), r...))})
			since = nil
		case "TKB":
			epochEnds()
			r := sb.TakeRedactableBytes()
			kept = append(kept, taken{redact.RedactableString(string(r)), string(r)})
			since = nil
		case "FX":
			bdApplyWrite(&sb, o)
		case "RS":
			r := sb.RedactableString()
			kept = append(kept, taken{r, string(append([]byte(nil), r...))}) // a string obtained earlier is never modified by later writes
		case "RB":
			_ = sb.RedactableBytes()
		case "STR":
			r := sb.String()
			kept = append(kept, taken{redact.RedactableString(r), string(append([]byte(nil), r...))})
		case "LEN":
			_ = sb.Len()
		}
		if i != len(k.Ops)-1 {
			continue // judged only at the end: the accessor calls of the judge itself must not sit between the operations
		}
		rep.AddEval(1)
		// the builder under test is read FIRST: the reference builder below runs the same library code, and whatever that
		// code remembers process-wide (a memo of its last piece of work, say) must still be what the history left
		got := sb.RedactableString()
		gotB := string(sb.RedactableBytes())
		gotLen, gotStr := sb.Len(), sb.String()
		var fresh redact.StringBuilder
		for _, w := range since {
			bdApplyWrite(&fresh, w)
		}
		want := fresh.RedactableString()
		if (rep.Property == "C01" || rep.Property == "C03" || rep.Property == "C09" || rep.Property == "C10" || rep.Property == "C12") && !usesRaw(k.Ops) {
			// the same histories under C01 / C03: whatever was observed in between, what the builder shows is a
			// well-formed redactable no envelope of which spans a line feed
			if !lib.WellFormed([]byte(got)) {
				rep.Violate("builder:illformed", fmt.Sprintf("after %s the builder shows %q", desc(i), got), k)
				return
			}
			if !lib.LineSafe([]byte(got)) {
				rep.Violate("builder:linespan", fmt.Sprintf("after %s the builder shows %q", desc(i), got), k)
				return
			}
		}
		if got != want {
			rep.Violate("builder:not-like-new", fmt.Sprintf("after %s the builder shows %q, a new builder given the writes since the last Reset/Take shows %q", desc(i), got, want), k)
			return
		}
		if gotB != string(want) {
			rep.Violate("builder:accessors-disagree", fmt.Sprintf("after %s RedactableBytes is %q, RedactableString %q", desc(i), gotB, want), k)
			return
		}
		if gotLen != len(want) || gotStr != want.StripMarkers() {
			rep.Violate("builder:len-or-string", fmt.Sprintf("after %s Len()=%d String()=%q for %q", desc(i), gotLen, gotStr, want), k)
			return
		}
		for _, t := range kept {
			if string(t.s) != t.copy {
				rep.Violate("builder:taken-result-mutated", fmt.Sprintf("after %s a string taken earlier changed: %q -> %q", desc(i), t.copy, t.s), k)
				return
			}
		}
	}
	rep.Nontrivial(desc(len(k.Ops) - 1))
}

// manualBufferAgreement (C13 on ManualBuffer): whatever was written -- in the raw modes too, where the content is the
// caller's business -- the accessors agree with each other and with Take: Len = len(RedactableString),
// RedactableBytes = RedactableString, String = that without its markers, and Take returns what the accessors showed.
func manualBufferAgreement(rep *lib.Report) {
	frags := []string{"", "a", "a\xe2", "\xe2\x80", "\u2039x\u203a\xc3", "x\n", "\u2039", "\xf0\x9f"}
	modes := []buffer.OutputMode{buffer.UnsafeEscaped, buffer.SafeEscaped, buffer.SafeRaw, buffer.PreRedactable}
	n := 0
	for _, m1 := range modes {
		for _, f1 := range frags {
			for _, m2 := range modes {
				for _, f2 := range []string{"", "b", "\xa9", "\n"} {
					for _, write2 := range []bool{false, true} {
						if !write2 && f2 != "" {
							continue
						}
						var b redact.ManualBuffer
						b.SetMode(m1)
						b.WriteString(f1)
						b.SetMode(m2)
						if write2 {
							b.WriteString(f2)
						}
						kase := map[string]interface{}{"kind": "manual-buffer", "m1": int(m1), "f1": f1, "m2": int(m2), "f2": f2, "write2": write2}
						l := b.Len()
						rs := b.RedactableString()
						rb := string(b.RedactableBytes())
						str := b.String()
						l2 := b.Len()
						tk := b.TakeRedactableString()
						n++
						desc := fmt.Sprintf("SetMode(%d); Write(%q); SetMode(%d); write2=%v(%q)", m1, f1, m2, write2, f2)
						switch {
						case l != len(rs) || l2 != l:
							rep.Violate("buffer:len", fmt.Sprintf("%s: Len()=%d (again %d) but RedactableString %q has %d bytes", desc, l, l2, rs, len(rs)), kase)
						case rb != string(rs):
							rep.Violate("buffer:rs-rb", fmt.Sprintf("%s: RedactableString %q != RedactableBytes %q", desc, rs, rb), kase)
						case str != rs.StripMarkers():
							rep.Violate("buffer:string", fmt.Sprintf("%s: String() %q is not RedactableString %q without its markers", desc, str, rs), kase)
						case tk != rs:
							rep.Violate("buffer:accessor", fmt.Sprintf("%s: the accessors show %q, TakeRedactableString returns %q", desc, rs, tk), kase)
						}
					}
				}
			}
		}
	}
	rep.AddEval(int64(n))
	rep.Count("manual_buffer_agreement_histories", n)
}

func builderDrive(args []string) {
	fs := flag.NewFlagSet("builder-drive", flag.ExitOnError)
	prop := fs.String("prop", "C13", "")
	maxLen := fs.Int("len", 4, "")
	fs.Parse(args)
	rep := lib.NewReport(*prop, "builder-drive")
	manualBufferAgreement(rep)
	var gen func(prefix []bdOp, d int, emit func(bdCase))
	gen = func(prefix []bdOp, d int, emit func(bdCase)) {
		if len(prefix) > 0 {
			emit(bdCase{"builder", append([]bdOp(nil), prefix...)})
		}
		if d == 0 {
			return
		}
		for _, o := range bdAlphabet {
			gen(append(prefix, o), d-1, emit)
		}
	}
	// epoch twins: writes, an accessor, Reset / Take, then the SAME writes with every safe text replaced by another of the
	// same length -- whatever is remembered about the old epoch by array, length and pending bytes fits the new one too
	writes := []bdOp{{"S", "user="}, {"U", "alice"}, {"U", "x\ny"}, {"U", ""}, {"P", "bobby"}, {"S", "\u2039"}, {"S", "hello "}}
	twinOf := map[string]string{"user=": "nick=", "\u2039": "\u203a", "hello ": "jello "}
	var twins []bdCase
	var genW func(prefix []bdOp, d int)
	genW = func(prefix []bdOp, d int) {
		if len(prefix) > 0 {
			for _, acc := range []string{"LEN", "RS", "RB", "STR", ""} {
				for _, cut := range []string{"RST", "TKS", "TKB"} {
					ops := append([]bdOp(nil), prefix...)
					if acc != "" {
						ops = append(ops, bdOp{acc, ""})
					}
					ops = append(ops, bdOp{cut, ""})
					for _, w := range prefix {
						if t, ok := twinOf[w.P]; ok && w.O == "S" {
							w = bdOp{"S", t}
						}
						ops = append(ops, w)
					}
					twins = append(twins, bdCase{"builder", ops})
				}
			}
		}
		if d == 0 {
			return
		}
		for _, o := range writes {
			genW(append(prefix, o), d-1)
		}
	}
	genW(nil, 3)
	// a multi-byte character split over two writes right where the array is full: what is written must not depend on
	// where reallocations fall -- a builder that kept a larger array over Reset shows what a new one shows
	for _, l := range []int{40, 55, 56, 57, 58, 59, 60, 61, 62, 63, 64, 65, 66, 120, 121, 122, 123, 124, 125, 126, 127, 128, 129, 130, 190, 191, 192, 193, 194} {
		for _, pre := range [][]bdOp{nil, {{"U", strings.Repeat("x", 300)}, {"RST", ""}}, {{"S", strings.Repeat("y", 700)}, {"RST", ""}}} {
			for _, kind := range []string{"U", "S"} {
				ops := append([]bdOp(nil), pre...)
				ops = append(ops, bdOp{kind, strings.Repeat("a", l) + "\xc3"}, bdOp{kind, "\xa9z"})
				twins = append(twins, bdCase{"builder", ops})
				ops2 := append([]bdOp(nil), pre...)
				ops2 = append(ops2, bdOp{kind, strings.Repeat("a", l) + "\xe2\x80"}, bdOp{kind, "\xbaz"})
				twins = append(twins, bdCase{"builder", ops2})
			}
		}
	}
	// a short payload that still has to be escaped, then a large write in the same mode (no mode switch in between);
	// a large builder observed, then a foreign call, then more writes
	big := strings.Repeat("b", 300)
	for _, kind := range []string{"U", "S"} {
		for _, small := range []string{"\u2039x", "y\u203a", "z\n", "\xe2\x80"} {
			for _, acc := range []string{"", "LEN", "RS", "STR"} {
				ops := []bdOp{{kind, small}}
				if acc != "" {
					ops = append(ops, bdOp{acc, ""})
				}
				ops = append(ops, bdOp{kind, big}, bdOp{kind, small})
				twins = append(twins, bdCase{"builder", ops})
				twins = append(twins, bdCase{"builder", []bdOp{{kind, big + small}, {acc, ""}, {"FX", small}, {kind, "tail" + small}, {"FX", "q"}, {"RS", ""}}})
			}
		}
	}
	// the builder among its own operands (by value, by pointer, nested) and a panic that crosses Print, after contents
	// that end with a closing marker / an open envelope / safe text; then more writes
	for _, pre := range [][]bdOp{nil, {{"U", "a"}}, {{"U", "secret"}, {"S", ""}}, {{"S", "safe "}}, {{"U", "x\n"}}, {{"S", "s"}, {"U", "u"}}} {
		for _, op := range []string{"PSV", "PSP", "PSN", "PX"} {
			for _, arg := range []string{"uvw", "", "u\u203a"} {
				for _, post := range [][]bdOp{nil, {{"U", "t"}}, {{"S", "t"}}, {{op, "w"}}} {
					ops := append([]bdOp(nil), pre...)
					ops = append(ops, bdOp{op, arg})
					ops = append(ops, post...)
					twins = append(twins, bdCase{"builder", ops})
				}
			}
		}
	}
	rep.Count("epoch_twin_and_boundary_sequences", len(twins))
	// (one after the other, on this goroutine alone: what the library remembers process-wide is then what THIS history left)
	for _, k := range twins {
		k := k
		rep.Guard("builder:panic", k, func() { judgeBuilder(rep, k) })
	}
	lib.Parallel(8, func(emit func(bdCase)) { gen(nil, *maxLen, emit) }, func(k bdCase) {
		rep.Guard("builder:panic", k, func() { judgeBuilder(rep, k) })
	})
	rep.SampleIfFew(map[string]interface{}{"alphabet": len(bdAlphabet), "length": *maxLen})
	rep.Finish()
}

func init() {
	register("builder-drive", "C13: every short history of StringBuilder writes, Reset/Take and accessors vs a new builder", builderDrive)
	extraReplayers["builder"] = func(rep *lib.Report, prop string, raw json.RawMessage) {
		var k bdCase
		_ = json.Unmarshal(raw, &k)
		judgeBuilder(rep, k)
	}
}
