------------------------------- MODULE MCSort -------------------------------
(***************************************************************************)
(* Every set of at most MaxKeys map keys of one kind over small alphabets: *)
(* Compare is a strict total order on distinct NaN-free keys (so the       *)
(* printed order is a function of the key set, not of Go's randomised map  *)
(* iteration), and the sorted sequence is emitted for the real printer.    *)
(***************************************************************************)
EXTENDS FmtSort, TLC, Json

CONSTANTS MaxKeys, EmitOn
VARIABLES kind, keys
vars == <<kind, keys>>

R == 0..6                                   \* ranks; the harness maps them to values incl. the extremes of the range
Floats == {KFloat(n) : n \in {0, 3, 6}} \cup {KNaN}
Alphabet(kd) ==
  CASE kd = "int"     -> {KInt(n) : n \in R}
    [] kd = "uint"    -> {KUint(n) : n \in R}
    [] kd = "bool"    -> {KBool(0), KBool(1)}
    [] kd = "str"     -> {KStr(<<>>), KStr(<<97>>), KStr(<<97, 97>>), KStr(<<97, 98>>), KStr(<<98>>), KStr(<<65>>), KStr(<<255>>)}
    [] kd = "float"   -> Floats
    [] kd = "complex" -> {KComplex(a, b) : a \in {KFloat(0), KFloat(6)}, b \in {KFloat(0), KFloat(3), KNaN}}
    [] kd = "struct"  -> {KStruct(<<KInt(a), KStr(b)>>) : a \in {0, 6}, b \in {<<>>, <<97>>, <<98>>}}
    [] kd = "array"   -> {KArray(<<KInt(a), KInt(b)>>) : a \in {0, 3, 6}, b \in {0, 6}}
    [] kd = "iface"   -> {KNilIface} \cup {KIface(KInt(n)) : n \in {0, 1, 5, 6}}
Kinds == {"int", "uint", "bool", "str", "float", "complex", "struct", "array", "iface"}

Init == kind \in Kinds /\ keys = {}
Next == /\ Cardinality(keys) < MaxKeys
        /\ \E x \in Alphabet(kind) \ keys : keys' = keys \cup {x}
        /\ kind' = kind
Spec == Init /\ [][Next]_vars

AsSeq(S) == CHOOSE s \in [1..Cardinality(S) -> S] : \A i, j \in 1..Cardinality(S) : i # j => s[i] # s[j]

NaNFree == \A x \in keys : ~HasNaN(x)
InvAntisym  == NaNFree => \A a, b \in keys : (a # b) => (Compare(a, b) = -Compare(b, a) /\ Compare(a, b) # 0)
InvTrans    == NaNFree => \A a, b, c \in keys : (Compare(a, b) < 0 /\ Compare(b, c) < 0) => Compare(a, c) < 0
\* the sorted sequence does not depend on the order in which the map hands out its entries
InvOrderIndependent ==
  NaNFree => \A s \in {t \in [1..Cardinality(keys) -> keys] : \A i, j \in 1..Cardinality(keys) : i # j => t[i] # t[j]} :
               Sorted(s) = Sorted(AsSeq(keys))
InvSortedAscending == LET s == Sorted(AsSeq(keys)) IN NaNFree => \A i \in 1..(Len(s) - 1) : Compare(s[i], s[i + 1]) < 0

Emit == EmitOn => (Cardinality(keys') >= 2 =>
          PrintT(ToJson([kind |-> kind', sorted |-> Sorted(AsSeq(keys')), nanfree |-> \A x \in keys' : ~HasNaN(x)])))
=============================================================================
