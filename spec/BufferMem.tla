------------------------------ MODULE BufferMem ------------------------------
(***************************************************************************)
(* internal/buffer/buffer.go at the level where its aliasing hazards live: *)
(* backing arrays, len/cap, struct copies, strings that alias a backing    *)
(* array.  The value-level module Buffer cannot see these; this module     *)
(* refines it: Abs(b) is the Buffer state record, and every operation here *)
(* is checked to commute with the value-level operator (InvRefines).       *)
(*                                                                         *)
(*  heap.m[a]    contents of backing array a (its length is the capacity)  *)
(*  heap.u       arrays allocated so far                                   *)
(*  b            the Buffer struct: [arr, len, valid, mode, open]          *)
(*               (arr = 0: nil slice)                                      *)
(*  out          results handed to callers: [arr, len, snap]: a string /   *)
(*               slice that ALIASES array arr (the Take methods), with the bytes it   *)
(*               had when it was handed out; copies are not tracked        *)
(*  st           the value-level state the same operations produce         *)
(*                                                                         *)
(* C13: accessors (value receiver: they work on a struct COPY that shares  *)
(* the array) leave b and everything the caller holds untouched; a result  *)
(* obtained earlier is never modified by later writes; Reset / Take leave  *)
(* a buffer that behaves like a new one.                                   *)
(***************************************************************************)
EXTENDS Buffer, FiniteSets, TLC

CONSTANTS MaxArr,       \* number of arrays that may be allocated
          SmallCap,     \* smallBufferSize (64 in the code; small here)
          PayloadsM,    \* payloads written
          MaxOpsM,
          DefectM       \* "none" | "accessor_in_place" | "take_keeps_array" | "string_aliases" | "nested_abandon" |
                        \* "observe_while_lent" : vacuity controls

\* loan: the Buffer struct as a nested printer holds it while SafePrinter.Print/Printf runs (np.buf = p.buf: a struct
\* COPY that shares the array), <<>> when the buffer is not lent; nst: the value-level state of that nested buffer
VARIABLES heap, b, out, st, nops, loan, nst
varsM == <<heap, b, out, st, nops, loan, nst>>

Nil == 0
Cap(a) == IF a = Nil THEN 0 ELSE Len(heap.m[a])
ViewIn(h, x) == IF x.arr = Nil THEN <<>> ELSE SubSeq(h.m[x.arr], 1, x.len)
View(x) == ViewIn(heap, x)                                                    \* b.buf as a value
Abs(x) == [buf |-> View(x), valid |-> x.valid, mode |-> x.mode, open |-> x.open]

InitM == /\ heap = [m |-> [a \in 1..MaxArr |-> <<>>], u |-> {}]
         /\ b = [arr |-> Nil, len |-> 0, valid |-> 0, mode |-> MU, open |-> FALSE]
         /\ out = {} /\ st = BInit /\ nops = 0 /\ loan = <<>> /\ nst = BInit

Fresh(h) == (1..MaxArr) \ h.u
Alloc(h, a, content) == [m |-> [h.m EXCEPT ![a] = content], u |-> h.u \cup {a}]
Pad(s, n) == s \o [i \in 1..(n - Len(s)) |-> 0]

\* store bytes p at offset off of array a (in place)
Store(h, a, off, p) == [h EXCEPT !.m[a] = [i \in 1..Len(@) |-> IF i > off /\ i <= off + Len(p) THEN p[i - off] ELSE @[i]]]

(***************************************************************************)
(* append: tryGrowByReslice, else grow (new array of 2*cap+n, or SmallCap  *)
(* for a nil buffer and a small write).  Returns <<heap', struct'>>;       *)
(* pure function of (heap, struct) so that it serves b and its copies.     *)
(***************************************************************************)
AppendM(h, x, p) ==
  IF Len(p) = 0 /\ x.arr # Nil THEN <<h, x>>
  ELSE IF x.arr # Nil /\ x.len + Len(p) <= Len(h.m[x.arr])
       THEN <<Store(h, x.arr, x.len, p), [x EXCEPT !.len = @ + Len(p)]>>
       ELSE LET a == CHOOSE f \in Fresh(h) : TRUE
                c == IF x.arr = Nil /\ Len(p) <= SmallCap THEN SmallCap
                     ELSE 2 * (IF x.arr = Nil THEN 0 ELSE Len(h.m[x.arr])) + Len(p)
                old == IF x.arr = Nil THEN <<>> ELSE SubSeq(h.m[x.arr], 1, x.len)
            IN <<Alloc(h, a, Pad(old \o p, c)), [x EXCEPT !.arr = a, !.len = Len(old) + Len(p)]>>

\* b.buf = b.buf[:n]
Shrink(x, n) == [x EXCEPT !.len = n]

\* escapeToEnd: InternalEscapeBytes returns its input when nothing changes, else a NEW slice
EscapeM(h, x, brk) ==
  LET cur == IF x.arr = Nil THEN <<>> ELSE SubSeq(h.m[x.arr], 1, x.len)
      nb  == InternalEscape(cur, x.valid, brk, FALSE)
  IN IF nb = cur THEN <<h, [x EXCEPT !.valid = x.len]>>
     ELSE LET a == CHOOSE f \in Fresh(h) : TRUE IN
          <<Alloc(h, a, nb), [x EXCEPT !.arr = a, !.len = Len(nb), !.valid = Len(nb)]>>

EndRedM(h, x) ==
  LET cur == IF x.arr = Nil THEN <<>> ELSE SubSeq(h.m[x.arr], 1, x.len) IN
  IF x.len = 0 THEN <<h, x>>
  ELSE IF HasSuffix(cur, StartM) THEN <<h, [Shrink(x, x.len - 3) EXCEPT !.open = FALSE]>>
  ELSE LET r == AppendM(h, x, EndM) IN <<r[1], [r[2] EXCEPT !.open = FALSE]>>

StartRedM(h, x) ==
  LET cur == IF x.arr = Nil THEN <<>> ELSE SubSeq(h.m[x.arr], 1, x.len) IN
  IF HasSuffix(cur, EndM) THEN <<h, [Shrink(x, x.len - 3) EXCEPT !.open = TRUE]>>
  ELSE LET r == AppendM(h, x, StartM) IN <<r[1], [r[2] EXCEPT !.open = TRUE]>>

StartWriteM(h, x) ==
  IF x.mode = MU /\ ~x.open
  THEN LET r == StartRedM(h, x) IN <<r[1], [r[2] EXCEPT !.valid = r[2].len]>>
  ELSE <<h, x>>

WriteM(h, x, p) == LET r == StartWriteM(h, x) IN AppendM(r[1], r[2], p)

FinalizeM(h, x) ==
  LET r1 == IF x.mode = MR THEN <<h, [x EXCEPT !.valid = x.len]>> ELSE EscapeM(h, x, x.mode = MU)
  IN IF r1[2].open THEN LET r2 == EndRedM(r1[1], r1[2]) IN <<r2[1], [r2[2] EXCEPT !.valid = r2[2].len]>>
     ELSE r1

SetModeM(h, x, m) ==
  IF x.mode = m THEN <<h, x>>
  ELSE LET r1 == IF x.mode \in {MU, MS} THEN EscapeM(h, x, x.mode = MU) ELSE <<h, x>>
           r2 == IF r1[2].open THEN EndRedM(r1[1], r1[2]) ELSE r1
       IN <<r2[1], [r2[2] EXCEPT !.valid = r2[2].len, !.mode = m]>>

Enough(h) == Cardinality(Fresh(h)) >= 3        \* an operation allocates at most 3 arrays

---------------------------------------------------------------------------
Step == nops < MaxOpsM /\ nops' = nops + 1 /\ Enough(heap) /\ loan = <<>> /\ UNCHANGED <<loan, nst>>

DoWrite(p) == /\ Step
              /\ LET r == WriteM(heap, b, p) IN heap' = r[1] /\ b' = r[2]
              /\ st' = BWrite(st, p) /\ out' = out

DoSetMode(m) == /\ Step /\ m # b.mode
                /\ LET r == SetModeM(heap, b, m) IN heap' = r[1] /\ b' = r[2]
                /\ st' = BSetMode(st, m) /\ out' = out

\* value-receiver accessor (RedactableString / RedactableBytes / String / Len): finalize on a struct COPY;
\* the string result is a copy of the bytes (not tracked); only the heap can be affected
DoAccessor == /\ Step
              /\ LET r == FinalizeM(heap, b) IN
                   /\ heap' = r[1]
                   /\ b' = IF DefectM = "accessor_in_place" THEN r[2] ELSE b
                   /\ out' = IF DefectM = "string_aliases" /\ r[2].arr # Nil
                             THEN out \cup {[arr |-> r[2].arr, len |-> r[2].len, snap |-> SubSeq(r[1].m[r[2].arr], 1, r[2].len)]}
                             ELSE out
              /\ st' = st

\* TakeRedactableString: finalize in place; the result ALIASES the array; the buffer lets go of it
DoTake == /\ Step
          /\ LET r == FinalizeM(heap, b) IN
               /\ heap' = r[1]
               /\ out' = IF r[2].arr = Nil THEN out
                         ELSE out \cup {[arr |-> r[2].arr, len |-> r[2].len, snap |-> SubSeq(r[1].m[r[2].arr], 1, r[2].len)]}
               /\ b' = IF DefectM = "take_keeps_array"
                       THEN [r[2] EXCEPT !.len = 0, !.valid = 0, !.mode = MU]
                       ELSE [r[2] EXCEPT !.arr = Nil, !.len = 0, !.valid = 0, !.mode = MU]
          /\ st' = BTake(st)

\* Reset: b.buf = b.buf[:0] (keeps the storage)
DoReset == /\ Step
           /\ b' = [b EXCEPT !.len = 0, !.valid = 0, !.mode = MU, !.open = FALSE]
           /\ heap' = heap /\ out' = out /\ st' = BReset(st)

(***************************************************************************)
(* printer_adapter.go: pp.Print / pp.Printf lend the outer printer's       *)
(* buffer to a nested printer.  The nested printer works on a struct copy  *)
(* that shares the array: it may append beyond the outer length AND rewrite *)
(* bytes below it (its first unsafe write takes back a closing marker).    *)
(* The outer struct is frozen meanwhile; the loan ends with the struct     *)
(* being handed back -- on the normal path and (since the repair of F10)   *)
(* when a panic crosses the nested printer.  DefectM = "nested_abandon" is *)
(* the code before the repair: the panic path drops the nested struct.     *)
(***************************************************************************)
NStep == nops < MaxOpsM /\ nops' = nops + 1 /\ Enough(heap) /\ loan # <<>> /\ UNCHANGED <<b, out, st>>

DoLend == /\ nops < MaxOpsM /\ nops' = nops + 1 /\ loan = <<>>
          /\ loan' = <<b>> /\ nst' = st /\ UNCHANGED <<heap, b, out, st>>

DoNestedWrite(p) == /\ NStep
                    /\ LET r == WriteM(heap, loan[1], p) IN heap' = r[1] /\ loan' = <<r[2]>>
                    /\ nst' = BWrite(nst, p)

DoNestedSetMode(m) == /\ NStep /\ m # loan[1].mode
                      /\ LET r == SetModeM(heap, loan[1], m) IN heap' = r[1] /\ loan' = <<r[2]>>
                      /\ nst' = BSetMode(nst, m)

\* p.buf = np.buf (normal return, and the panic path after the repair)
DoHandBack == /\ nops < MaxOpsM /\ nops' = nops + 1 /\ loan # <<>>
              /\ b' = loan[1] /\ st' = nst /\ loan' = <<>> /\ UNCHANGED <<heap, out, nst>>

\* before the repair: a panic crosses the nested printer and its struct is dropped; at the level of VALUES the outer
\* buffer is what it was before the loan
DoAbandon == /\ DefectM = "nested_abandon"
             /\ nops < MaxOpsM /\ nops' = nops + 1 /\ loan # <<>>
             /\ loan' = <<>> /\ UNCHANGED <<heap, b, out, st, nst>>

\* The discipline that makes the loan sound: while the array is lent, nobody uses the lender's (stale) struct.  The
\* builder's Print/Printf keep it by construction (they format into a printer of their own and append the finished
\* text afterwards), so the builder may be among its own operands.  DefectM = "observe_while_lent" is a builder that
\* prints in place instead: an operand that is the builder itself calls an accessor on a COPY OF THE STALE STRUCT, whose
\* finalize appends the closing marker at the stale length -- on top of what the borrower wrote there.
DoObserveLent == /\ DefectM = "observe_while_lent"
                 /\ nops < MaxOpsM /\ nops' = nops + 1 /\ loan # <<>> /\ Enough(heap)
                 /\ LET r == FinalizeM(heap, b) IN heap' = r[1]
                 /\ UNCHANGED <<b, out, st, loan, nst>>

NextM == \/ \E p \in PayloadsM : DoWrite(p)
         \/ \E m \in Modes : DoSetMode(m)
         \/ DoAccessor \/ DoTake \/ DoReset
         \/ DoLend \/ DoHandBack \/ DoAbandon \/ DoObserveLent
         \/ \E p \in PayloadsM : DoNestedWrite(p)
         \/ \E m \in Modes : DoNestedSetMode(m)
SpecM == InitM /\ [][NextM]_varsM

---------------------------------------------------------------------------
\* the memory-level buffer implements the value-level one (while it is lent the outer struct is frozen and unobserved;
\* the nested struct implements the nested value-level state)
InvRefines == IF loan = <<>> THEN Abs(b) = st ELSE Abs(loan[1]) = nst
\* C13: what a caller obtained earlier is never modified by later operations
InvResultsStable == \A r \in out : SubSeq(heap.m[r.arr], 1, r.len) = r.snap
\* a result never shares its array with the live buffer
InvNoAlias == \A r \in out : b.arr # r.arr /\ (loan # <<>> => loan[1].arr # r.arr)
\* accessors are pure at the value level: finalizing a copy gives what the value model says
InvAccessor == loan = <<>> => LET r == FinalizeM(heap, b) IN ViewIn(r[1], r[2]) = BOut(st)

PayloadsQ == {<<>>, <<97>>, <<NL>>, StartM, <<97, 98, 99, 100, 101>>}
=============================================================================
