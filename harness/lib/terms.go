package lib

import (
	"encoding/json"
	"fmt"
	"io"
	"os"
	"reflect"
	"strconv"
	"strings"
	"sync"
	"sync/atomic"
	"unicode/utf8"

	"github.com/cockroachdb/redact"
	"github.com/cockroachdb/redact/interfaces"
)

// Term is an abstract value of the Printer specification (Printer!T0).
type Term struct {
	K    string   `json:"k"`
	ID   int      `json:"id"`
	N    int      `json:"n"`
	B    []int    `json:"b"`
	Xs   []*Term  `json:"xs"`
	Ro   []bool   `json:"ro"`
	Caps []string `json:"caps"`
	Scr  []SOp    `json:"scr"`
	FScr []SOp    `json:"fscr"`
	Pan  []*Term  `json:"pan"`
}

// SOp is one operation of a user method body (Printer!SOp).
type SOp struct {
	O  string  `json:"o"`
	B  []int   `json:"b"`
	N  int     `json:"n"`
	F  []int   `json:"f"`
	Ts []*Term `json:"ts"`
}

const (
	RTok = 1000000
	PTok = 2000000
)

// Dict gives the concrete text of payload token id.  The default ("plain")
// dictionary yields non-empty ASCII without markers or line feeds, which is
// what the specification assumes of a token.
type Dict func(id int) string

func PlainDict(id int) string { return "p" + strconv.Itoa(id) + "q" }

// Ctx concretises the terms of one case.
type Ctx struct {
	Dict Dict
	// C02: when SecretInts != 0, int/uint/float/bool leaves NOT declared safe (per Public,
	// the statement-level context map) take values that depend on the instantiation.
	SecretInts int
	Public     map[int]bool // Publicity(): leaf values keyed by -id
	HandleBase int
	// SecretBase: the handles (= underlying int values) of objects NOT declared safe, when SecretInts != 0; it is
	// this context's own, so that those values differ between the two instantiations of a C02 pair
	SecretBase int
	u8         []uint8
	byID       map[int]*Term
	vals       map[int]interface{}
	Calls      []CallRec
	callMu     sync.Mutex
	// C11 relational oracle: in "twin" mode a user method that would panic writes a placeholder where it
	// would have panicked (and returns) instead; Twins records method and payload per placeholder.
	PanicTwin bool
	Twins     []TwinRec
	methStack []string
}

// TwinRec describes one placeholder written in twin mode.
type TwinRec struct {
	Method  string
	Payload *Term
}

// TwinPlaceholder is the text written for the k-th would-be panic.
func TwinPlaceholder(k int) string { return fmt.Sprintf("@PANIC%03d@", k) }

func (c *Ctx) twin(method string, payload *Term) string {
	c.callMu.Lock()
	defer c.callMu.Unlock()
	c.Twins = append(c.Twins, TwinRec{method, payload})
	return TwinPlaceholder(len(c.Twins) - 1)
}

func (c *Ctx) curMethod() string {
	if n := len(c.methStack); n > 0 {
		return c.methStack[n-1]
	}
	return ""
}

type CallRec struct {
	M  string `json:"m"`
	ID int    `json:"id"`
	V  int    `json:"v"`
}

var nextBase int64

func NewCtx(d Dict) *Ctx {
	if d == nil {
		d = PlainDict
	}
	base := int(atomic.AddInt64(&nextBase, 1)) * 1000
	return &Ctx{Dict: d, byID: map[int]*Term{}, vals: map[int]interface{}{}, HandleBase: base, SecretBase: base}
}

// NewCtxLike shares the object handles of a released context (so that public
// object values are equal in both instantiations of a C02 pair).
func NewCtxLike(d Dict, base int) *Ctx {
	c := NewCtx(d)
	c.HandleBase = base
	return c
}

func (c *Ctx) call(m string, t *Term, verb rune) {
	c.callMu.Lock()
	c.Calls = append(c.Calls, CallRec{m, t.ID, int(verb)})
	c.callMu.Unlock()
}

// Subst turns model bytes (ints; payload tokens inside) into concrete bytes.
func (c *Ctx) Subst(b []int) []byte {
	out := make([]byte, 0, len(b))
	for _, x := range b {
		switch {
		case x >= PTok:
			out = append(out, c.payload(x-PTok)...)
		case x >= 256:
			panic(fmt.Sprintf("unexpected token %d in input bytes", x))
		default:
			out = append(out, byte(x))
		}
	}
	return out
}

func (c *Ctx) payload(id int) string {
	if t, ok := c.byID[id]; ok && t.K == "safe" {
		// the text of safeWrapper.SafeMessage()
		return fmt.Sprintf("%v", c.Value(t.Xs[0]))
	}
	return c.Dict(id)
}

// ---- objects ---------------------------------------------------------------

type objSpec struct {
	c *Ctx
	t *Term
}

var (
	specs sync.Map
)

func specOf(h int) *objSpec {
	v, ok := specs.Load(h)
	if !ok {
		panic(fmt.Sprintf("no object spec for handle %d", h))
	}
	return v.(*objSpec)
}

var capBits = map[string]int{"SF": 1, "SM": 2, "SV": 4, "ER": 8, "FM": 16, "GS": 32, "ST": 64}

func hasCap(t *Term, c string) bool {
	for _, x := range t.Caps {
		if x == c {
			return true
		}
	}
	return false
}

func (s *objSpec) ret(method string) string {
	s.c.call(method, s.t, 0)
	if len(s.t.Pan) > 0 {
		if s.c.PanicTwin {
			return s.c.twin(method, s.t.Pan[0])
		}
		panic(s.c.Value(s.t.Pan[0]))
	}
	return string(s.c.Subst(s.t.B))
}

func (s *objSpec) safeFormat(p redact.SafePrinter, verb rune) {
	s.c.call("SafeFormat", s.t, verb)
	s.c.methStack = append(s.c.methStack, "SafeFormat")
	defer func() { s.c.methStack = s.c.methStack[:len(s.c.methStack)-1] }()
	s.c.RunScript(s.t.Scr, p, nil, verb)
}

func (s *objSpec) format(st fmt.State, verb rune) {
	s.c.call("Format", s.t, verb)
	s.c.methStack = append(s.c.methStack, "Format")
	defer func() { s.c.methStack = s.c.methStack[:len(s.c.methStack)-1] }()
	s.c.RunScript(s.t.FScr, nil, st, verb)
}

// RunScript interprets a user-method body against the SafePrinter p (SafeFormat,
// hook, Sprintfn) or the fmt.State st (Format; SafePrinter operations are
// available after a "Discover" op if st really is redact's printer, otherwise
// they fall back to writing their text through st).
// flagsOf: the flags a Format / SafeFormat method observes, in the order + - # space 0
func flagsOf(st fmt.State) string {
	out := ""
	for _, f := range "+-# 0" {
		if st.Flag(int(f)) {
			out += string(f)
		}
	}
	return out
}

func (c *Ctx) RunScript(ops []SOp, p redact.SafePrinter, st fmt.State, verb rune) {
	for _, op := range ops {
		if p == nil {
			// Format method, SafePrinter not (yet) discovered
			switch op.O {
			case "Write":
				st.Write(c.Subst(op.B))
				continue
			case "WriteString":
				io.WriteString(st, string(c.Subst(op.B)))
				continue
			case "WriteVerb":
				io.WriteString(st, string(verb))
				continue
			case "WriteFlags":
				io.WriteString(st, flagsOf(st))
				continue
			case "Discover":
				if sp, ok := st.(redact.SafePrinter); ok {
					p = sp
				}
				continue
			case "Panic":
				if c.PanicTwin && c.curMethod() != "" {
					io.WriteString(st, c.twin(c.curMethod(), op.Ts[0]))
					return
				}
				panic(c.Value(op.Ts[0]))
			}
			// fallback under a foreign fmt.State
			switch op.O {
			case "SafeString", "UnsafeString", "SafeBytes", "UnsafeBytes":
				st.Write(c.Subst(op.B))
			case "SafeRune", "UnsafeRune":
				st.Write([]byte(string(rune(op.N))))
			case "SafeByte", "UnsafeByte":
				st.Write([]byte{byte(op.N)})
			case "SafeInt":
				fmt.Fprint(st, op.N)
			case "Print":
				fmt.Fprint(st, c.Values(op.Ts)...)
			case "Printf":
				fmt.Fprintf(st, string(c.Subst(op.F)), c.Values(op.Ts)...)
			}
			continue
		}
		switch op.O {
		case "SafeString":
			p.SafeString(redact.SafeString(c.Subst(op.B)))
		case "UnsafeString":
			p.UnsafeString(string(c.Subst(op.B)))
		case "SafeBytes":
			p.SafeBytes(interfaces.SafeBytes(c.Subst(op.B)))
		case "UnsafeBytes":
			p.UnsafeBytes(c.Subst(op.B))
		case "SafeRune":
			p.SafeRune(redact.SafeRune(op.N))
		case "UnsafeRune":
			p.UnsafeRune(rune(op.N))
		case "SafeByte":
			p.SafeByte(interfaces.SafeByte(op.N))
		case "UnsafeByte":
			p.UnsafeByte(byte(op.N))
		case "SafeInt":
			p.SafeInt(redact.SafeInt(op.N))
		case "SafeUint":
			p.SafeUint(redact.SafeUint(uint64(int64(op.N))))
		case "SafeFloat":
			p.SafeFloat(redact.SafeFloat(c.Value(op.Ts[0]).(float64)))
		case "Write":
			p.Write(c.Subst(op.B))
		case "WriteString":
			io.WriteString(p, string(c.Subst(op.B)))
		case "WriteVerb":
			io.WriteString(p, string(verb))
		case "WriteFlags":
			io.WriteString(p, flagsOf(p))
		case "Print":
			p.Print(c.Values(op.Ts)...)
		case "Printf":
			p.Printf(string(c.Subst(op.F)), c.Values(op.Ts)...)
		case "JoinTo":
			redact.JoinTo(p, redact.RedactableString(c.Subst(op.B)), c.Value(op.Ts[0]))
		case "Panic":
			if c.PanicTwin && c.curMethod() != "" {
				p.SafeString(redact.SafeString(c.twin(c.curMethod(), op.Ts[0])))
				return
			}
			panic(c.Value(op.Ts[0]))
		case "Discover":
		case "UnsafeErrText":
			p.UnsafeString(c.Value(op.Ts[0]).(error).Error())
		default:
			panic("unknown script op " + op.O)
		}
	}
}

// RunWriterOps issues the calls on a SafeWriter; wr is its plain io.Writer side.
func (c *Ctx) RunWriterOps(ops []SOp, w redact.SafeWriter, wr io.Writer) {
	for _, op := range ops {
		switch op.O {
		case "SafeString":
			w.SafeString(redact.SafeString(c.Subst(op.B)))
		case "UnsafeString":
			w.UnsafeString(string(c.Subst(op.B)))
		case "SafeBytes":
			w.SafeBytes(interfaces.SafeBytes(c.Subst(op.B)))
		case "UnsafeBytes":
			w.UnsafeBytes(c.Subst(op.B))
		case "SafeRune":
			w.SafeRune(redact.SafeRune(op.N))
		case "UnsafeRune":
			w.UnsafeRune(rune(op.N))
		case "SafeByte":
			w.SafeByte(interfaces.SafeByte(op.N))
		case "UnsafeByte":
			w.UnsafeByte(byte(op.N))
		case "SafeInt":
			w.SafeInt(redact.SafeInt(op.N))
		case "SafeUint":
			w.SafeUint(redact.SafeUint(uint64(int64(op.N))))
		case "SafeFloat":
			w.SafeFloat(redact.SafeFloat(c.Value(op.Ts[0]).(float64)))
		case "Write":
			wr.Write(c.Subst(op.B))
		case "WriteString":
			io.WriteString(wr, string(c.Subst(op.B)))
		case "WriteByte":
			// the builder's own WriteByte; a fmt.State only has Write
			if bw, ok := wr.(io.ByteWriter); ok {
				bw.WriteByte(byte(op.N))
			} else {
				wr.Write([]byte{byte(op.N)})
			}
		case "WriteRune":
			if rw, ok := wr.(interface{ WriteRune(rune) error }); ok {
				rw.WriteRune(rune(op.N))
			} else {
				wr.Write([]byte(string(rune(op.N))))
			}
		case "Print":
			w.Print(c.Values(op.Ts)...)
		case "Printf":
			w.Printf(string(c.Subst(op.F)), c.Values(op.Ts)...)
		case "JoinTo":
			redact.JoinTo(w, redact.RedactableString(c.Subst(op.B)), c.Value(op.Ts[0]))
		default:
			panic("writer op " + op.O)
		}
	}
}

// ---- uint8-kinded named types (capability U8) ----------------------------------
// Their value is a slot number; slots are reserved per context so that the methods find their spec.

type U8ER uint8
type U8ST uint8
type U8SV uint8
type U8 uint8

func (u U8ER) Error() string  { return u8Spec(uint8(u)).ret("Error") }
func (u U8ST) String() string { return u8Spec(uint8(u)).ret("String") }
func (U8SV) SafeValue()       {}

var (
	u8mu    sync.Mutex
	u8cond  = sync.NewCond(&u8mu)
	u8slots [250]*objSpec
)

func u8Reserve(sp *objSpec) uint8 {
	u8mu.Lock()
	defer u8mu.Unlock()
	for {
		for i := 20; i < len(u8slots); i++ {
			if u8slots[i] == nil {
				u8slots[i] = sp
				return uint8(i)
			}
		}
		u8cond.Wait()
	}
}

func u8Spec(slot uint8) *objSpec {
	u8mu.Lock()
	defer u8mu.Unlock()
	if sp := u8slots[slot]; sp != nil {
		return sp
	}
	panic(fmt.Sprintf("no spec for uint8 object %d", slot))
}

// ---- concrete values ---------------------------------------------------------

type St1E struct{ A interface{} }
type St1u struct{ a interface{} }
type St2EE struct{ A, B interface{} }
type St2Eu struct {
	A interface{}
	b interface{}
}
type St2uE struct {
	a interface{}
	B interface{}
}
type St2uu struct{ a, b interface{} }
type St3EEE struct{ A, B, C interface{} }

// StReg is a struct type registered as safe (capability REG on a struct term).
type StReg struct{ A, B interface{} }

func init() { redact.RegisterSafeType(reflect.TypeOf(StReg{})) }

type St3EuE struct {
	A interface{}
	b interface{}
	C interface{}
}

func (c *Ctx) Values(ts []*Term) []interface{} {
	out := make([]interface{}, len(ts))
	for i, t := range ts {
		out[i] = c.Value(t)
	}
	return out
}

// Index registers all terms reachable from ts by id.
func (c *Ctx) Index(ts []*Term) {
	for _, t := range ts {
		if t == nil {
			continue
		}
		c.register(t)
		c.Index(t.Xs)
		c.Index(t.Pan)
		for _, op := range t.Scr {
			c.Index(op.Ts)
		}
		for _, op := range t.FScr {
			c.Index(op.Ts)
		}
	}
}

// register notes t under its id.  Two different terms of one case that share an id are a mistake in the enumeration
// of the specification (the memoised value of the first would silently stand for the second): that must never turn
// into a verdict about redact, so the harness stops (exit 3 = machinery broken).
func (c *Ctx) register(t *Term) {
	if prev := c.byID[t.ID]; prev != nil && prev != t && t.K != "nil" && !reflect.DeepEqual(prev, t) {
		fmt.Fprintf(os.Stderr, "HARNESS-CONFIG-ERROR: term id %d stands for two different terms (%s / %s) in the same case\n", t.ID, prev.K, t.K)
		os.Exit(3)
	}
	c.byID[t.ID] = t
}

// Value returns the Go value of term t (memoised per id, so that the same
// object is used wherever the id occurs, e.g. for pointer identity).
func (c *Ctx) Value(t *Term) interface{} {
	c.register(t)
	if v, ok := c.vals[t.ID]; ok && t.K != "nil" {
		return v
	}
	v := c.build(t)
	c.vals[t.ID] = v
	return v
}

// Plain returns the underlying plain value of a leaf (what fmt renders for "val").
func (c *Ctx) Plain(t *Term) interface{} {
	switch t.K {
	case "obj":
		v := reflect.ValueOf(c.Value(t))
		if v.Kind() == reflect.Ptr {
			return c.Value(t)
		}
		if v.Kind() == reflect.Uint8 {
			return uint8(v.Uint())
		}
		return int(v.Int())
	}
	return c.Value(t)
}

func (c *Ctx) build(t *Term) interface{} {
	switch t.K {
	case "nil":
		return nil
	case "bool":
		return true
	case "int":
		if c.SecretInts != 0 && !c.Public[-t.ID] {
			return 7770 + c.SecretInts
		}
		return int(t.N)
	case "uint":
		if c.SecretInts != 0 && !c.Public[-t.ID] {
			return uint(7770 + c.SecretInts)
		}
		return uint(int64(t.N)) // a negative n stands for 2^64 + n
	case "float":
		if c.SecretInts != 0 && !c.Public[-t.ID] {
			return float64(7770+c.SecretInts) + 0.5
		}
		return float64(t.ID) + 0.123456789 // (more digits than a float32 holds: 32-bit and 64-bit formatting of it differ)
	case "string":
		return string(c.Subst(t.B))
	case "bytes":
		return c.Subst(t.B)
	case "rstring":
		return redact.RedactableString(c.Subst(t.B))
	case "rbytes":
		return redact.RedactableBytes(c.Subst(t.B))
	case "safe":
		return redact.Safe(c.Value(t.Xs[0]))
	case "unsafe":
		return redact.Unsafe(c.Value(t.Xs[0]))
	case "obj":
		mask, reg := 0, 0
		for _, cp := range t.Caps {
			mask |= capBits[cp]
			if cp == "REG" {
				reg = 1
			}
		}
		if hasCap(t, "U8") {
			sp := &objSpec{c, t}
			slot := u8Reserve(sp)
			c.u8 = append(c.u8, slot)
			switch {
			case hasCap(t, "ER"):
				return U8ER(slot)
			case hasCap(t, "ST"):
				return U8ST(slot)
			case hasCap(t, "SV"):
				return U8SV(slot)
			}
			return U8(slot)
		}
		if hasCap(t, "NILP") {
			return objMakers[reg][mask](0, true)
		}
		h := c.HandleBase + t.ID%1000
		if c.SecretInts != 0 && !c.Public[-t.ID] {
			h = c.SecretBase + t.ID%1000 // the value of an object that is not declared safe is a secret too
		}
		specs.Store(h, &objSpec{c, t})
		return objMakers[reg][mask](h, false)
	case "builder":
		// a builder.StringBuilder holding what the calls of t.Scr produced, passed by value
		var sb redact.StringBuilder
		c.RunWriterOps(t.Scr, &sb, &sb)
		return sb
	case "slice":
		return c.Values(t.Xs)
	case "map":
		m := map[interface{}]interface{}{}
		for i := 0; i+1 < len(t.Xs); i += 2 {
			m[c.Value(t.Xs[i])] = c.Value(t.Xs[i+1])
		}
		return m
	case "struct":
		v := c.Values(t.Xs)
		if hasCap(t, "REG") {
			if len(v) != 2 {
				panic("registered struct terms have two fields")
			}
			return StReg{v[0], v[1]}
		}
		pat := ""
		for _, r := range t.Ro {
			if r {
				pat += "u"
			} else {
				pat += "E"
			}
		}
		switch pat {
		case "E":
			return St1E{v[0]}
		case "u":
			return St1u{v[0]}
		case "EE":
			return St2EE{v[0], v[1]}
		case "Eu":
			return St2Eu{v[0], v[1]}
		case "uE":
			return St2uE{v[0], v[1]}
		case "uu":
			return St2uu{v[0], v[1]}
		case "EuE":
			return St3EuE{v[0], v[1], v[2]}
		case "EEE":
			return St3EEE{v[0], v[1], v[2]}
		}
		panic("no struct type for pattern " + pat)
	case "ptrto":
		inner := c.Value(t.Xs[0])
		p := reflect.New(reflect.TypeOf(inner))
		p.Elem().Set(reflect.ValueOf(inner))
		return p.Interface()
	case "nilptr":
		return (*int)(nil)
	case "chan":
		return make(chan int)
	case "func":
		return func() {}
	case "tslice", "tmap", "tarray":
		// statically typed: the element type is that of the first child
		vals := c.Values(t.Xs)
		et := reflect.TypeOf(vals[0])
		if t.K == "tarray" {
			arr := reflect.New(reflect.ArrayOf(len(vals), et)).Elem()
			for i, v := range vals {
				arr.Index(i).Set(reflect.ValueOf(v))
			}
			return arr.Interface()
		}
		if t.K == "tslice" {
			sl := reflect.MakeSlice(reflect.SliceOf(et), 0, len(vals))
			for _, v := range vals {
				sl = reflect.Append(sl, reflect.ValueOf(v))
			}
			return sl.Interface()
		}
		mp := reflect.MakeMap(reflect.MapOf(et, reflect.TypeOf(vals[1])))
		for i := 0; i+1 < len(vals); i += 2 {
			mp.SetMapIndex(reflect.ValueOf(vals[i]), reflect.ValueOf(vals[i+1]))
		}
		return mp.Interface()
	case "sstr":
		return redact.SafeString(c.Subst(t.B))
	case "complex":
		return complex(float64(t.ID)+0.5, float64(t.ID)+1.5)
	case "rvalue":
		return reflect.ValueOf(c.Value(t.Xs[0]))
	case "rvaluero":
		// a reflect.Value reached through an unexported field of the operand's own static type
		switch x := c.Value(t.Xs[0]).(type) {
		case redact.RedactableString:
			return reflect.ValueOf(struct{ f redact.RedactableString }{x}).Field(0)
		case redact.RedactableBytes:
			return reflect.ValueOf(struct{ f redact.RedactableBytes }{x}).Field(0)
		case redact.SafeString:
			return reflect.ValueOf(struct{ f redact.SafeString }{x}).Field(0)
		case string:
			return reflect.ValueOf(struct{ f string }{x}).Field(0)
		case int:
			return reflect.ValueOf(struct{ f int }{x}).Field(0)
		}
		panic("no holder type for a reflect.Value of this kind")
	case "invalidrv":
		return reflect.Value{}
	}
	panic("unknown term kind " + t.K)
}

// SpecOfValue returns the term behind an object operand (nil if v is not one).
func SpecOfValue(v interface{}) (*Ctx, *Term) {
	if u, ok := v.(U8ER); ok {
		sp := u8Spec(uint8(u))
		return sp.c, sp.t
	}
	rv := reflect.ValueOf(v)
	if !rv.IsValid() || rv.Kind() != reflect.Int {
		return nil, nil
	}
	if s, ok := specs.Load(int(rv.Int())); ok {
		sp := s.(*objSpec)
		return sp.c, sp.t
	}
	return nil, nil
}

// LogCall records a user-level call in the context's log (used by the error hook).
func (c *Ctx) LogCall(m string, t *Term, verb rune) { c.call(m, t, verb) }

// HookTerms are the operands the "print" / "panic" hooks of Printer!HookScript use.
func HookTerms() []*Term {
	return []*Term{
		{K: "string", ID: 900, B: []int{PTok + 900}},
		{K: "safe", ID: 901, Xs: []*Term{{K: "int", ID: 902, N: 7}}},
		{K: "string", ID: 903, B: []int{PTok + 903}},
	}
}

// Release drops the object specs of this context.
func (c *Ctx) Release() {
	if len(c.u8) > 0 {
		u8mu.Lock()
		for _, s := range c.u8 {
			u8slots[s] = nil
		}
		u8mu.Unlock()
		u8cond.Broadcast()
		c.u8 = nil
	}
	for _, v := range c.vals {
		rv := reflect.ValueOf(v)
		if rv.IsValid() && rv.Kind() == reflect.Int {
			specs.Delete(int(rv.Int()))
		}
	}
}

// ---- rendering tokens --------------------------------------------------------

// RtEntry is one requested leaf rendering (Printer!Rend).
type RtEntry struct {
	Rk string `json:"rk"`
	ID int    `json:"id"`
	V  int    `json:"v"`
	M  int    `json:"m"`
	N  int    `json:"n"`
	W  int    `json:"w"`
	P  int    `json:"p"`
}

func directive(e RtEntry, verb rune, forceSharp bool) string {
	d := "%"
	if e.M&4 != 0 || (e.M&32 != 0 && verb == 'v') {
		d += "+"
	}
	if e.M&8 != 0 {
		d += "-"
	}
	if e.M&1 != 0 || (e.M&64 != 0 && verb == 'v') || forceSharp {
		d += "#"
	}
	if e.M&16 != 0 {
		d += " "
	}
	if e.M&2 != 0 {
		d += "0"
	}
	if e.W >= 0 {
		d += strconv.Itoa(e.W)
	}
	if e.P >= 0 {
		d += "." + strconv.Itoa(e.P)
	}
	return d + string(verb)
}

// RenderToken gives the text the standard fmt package produces for entry e.
func (c *Ctx) RenderToken(e RtEntry) string {
	t := c.byID[e.ID]
	if t == nil && e.Rk != "ifacetype" {
		panic(fmt.Sprintf("rendering token refers to unknown term %d", e.ID))
	}
	verb := rune(e.V)
	switch e.Rk {
	case "val":
		v := c.Plain(t)
		if verb == 'v' && e.M&(1|4) != 0 {
			// 'v' reached with the plain plus/sharp flags (inside a bad-verb or panic report of another
			// verb): fmtInteger/fmtFloat/fmtS are entered with verb v but f.plus / f.sharp set, which no
			// %v directive can express; the equivalent directive uses the kind's own verb
			switch v.(type) {
			case int, uint:
				verb = 'd'
			case redact.SafeString:
				verb = 's'
			case float64:
				verb = 'g'
			case string:
				verb = 's'
			case bool:
				verb = 't'
			}
		}
		return fmt.Sprintf(directive(e, verb, false), v)
	case "cre", "cim":
		// fmtComplex: the parts go through fmtFloat with the directive's verb (v -> %g) and plain flags;
		// the imaginary part always carries the plus flag
		z := c.Value(t).(complex128)
		part := real(z)
		raw := e
		raw.M &^= 32 | 64
		if e.Rk == "cim" {
			part = imag(z)
			raw.M |= 4
		}
		v := verb
		if v == 'v' {
			v = 'g'
		}
		if v == 'F' {
			v = 'f'
		}
		return fmt.Sprintf(directive(raw, v, false), part)
	case "ret":
		if t.K == "safe" {
			return fmt.Sprintf(directive(e, verb, false), fmt.Sprintf("%v", c.Value(t.Xs[0])))
		}
		return fmt.Sprintf(directive(e, verb, false), string(c.Subst(t.B)))
	case "typename":
		return reflect.TypeOf(c.Value(t)).String()
	case "typefmt":
		return fmt.Sprintf(directive(e, 's', false), reflect.TypeOf(c.Value(t)).String())
	case "ifacetype":
		return "interface {}"
	case "std":
		return fmt.Sprintf(directive(e, verb, false), c.Value(t))
	case "ptr":
		// fmtPointer (print.go:533): the pointer VALUE, never the methods of the operand
		u := uint64(reflect.ValueOf(c.Value(t)).Pointer())
		raw := e
		raw.M &^= 32 | 64 // plusV / sharpV play no part in fmtInteger
		switch {
		case verb == 'v' && e.M&64 != 0: // (type)(0x..)
			raw.M &^= 1
			return fmt.Sprintf(directive(raw, 'x', true), u)
		case verb == 'v' && u == 0:
			return fmt.Sprintf(directive(raw, 'v', false), nil) // padString("<nil>")
		case verb == 'v' || verb == 'p': // fmt0x64(u, !sharp)
			force := e.M&1 == 0
			raw.M &^= 1
			return fmt.Sprintf(directive(raw, 'x', force), u)
		default:
			return fmt.Sprintf(directive(raw, verb, false), u)
		}
	case "elem":
		return fmt.Sprintf(directive(e, verb, false), uint8(c.Subst(t.B)[e.N-1]))
	case "elem0x":
		return fmt.Sprintf(directive(e, 'x', true), uint8(c.Subst(t.B)[e.N-1]))
	}
	panic("unknown rendering kind " + e.Rk)
}

// Expect substitutes all tokens of a model output.  hot reports that some
// token's text is not what the specification assumes of a token (non-empty,
// valid UTF-8, no marker, no line feed): the buffer would treat such a text
// specially, so the substituted prediction is not comparable byte for byte.
func (c *Ctx) Expect(out []int, rt []RtEntry) (b []byte, hot bool) {
	chk := func(s string) string {
		if s == "" || !utf8.ValidString(s) || strings.ContainsAny(s, "\n\u2039\u203a") {
			hot = true
		}
		return s
	}
	for _, x := range out {
		switch {
		case x >= PTok:
			b = append(b, chk(c.payload(x-PTok))...)
		case x >= RTok:
			b = append(b, chk(c.RenderToken(rt[x-RTok-1]))...)
		default:
			b = append(b, byte(x))
		}
	}
	return b, hot
}

// ParseTerms decodes a JSON array of terms.
func ParseTerms(raw json.RawMessage) ([]*Term, error) {
	var ts []*Term
	err := json.Unmarshal(raw, &ts)
	return ts, err
}
