package lib

import "unicode/utf8"

func decode(b []byte) (rune, int) { return utf8.DecodeRune(b) }
