package lib

import (
	"reflect"

	"github.com/cockroachdb/redact/internal/buffer"
)

// BufState is the hidden state of a buffer.Buffer: the four struct fields
// the specification's state record is made of, read by reflection so that no
// export hook is needed in the repository.
type BufState struct {
	Buf   B    `json:"buf"`
	Valid int  `json:"valid"`
	Mode  int  `json:"mode"`
	Open  bool `json:"open"`
}

func ReadBuf(b *buffer.Buffer) BufState {
	v := reflect.ValueOf(b).Elem()
	return BufState{
		Buf:   append([]byte(nil), v.FieldByName("buf").Bytes()...),
		Valid: int(v.FieldByName("validUntil").Int()),
		Mode:  int(v.FieldByName("mode").Int()),
		Open:  v.FieldByName("markerOpen").Bool(),
	}
}

func (a BufState) Equal(b BufState) bool {
	return string(a.Buf) == string(b.Buf) && a.Valid == b.Valid && a.Mode == b.Mode && a.Open == b.Open
}
